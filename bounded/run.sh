#!/bin/sh
# run.sh <TestName> <out.json>   builds a throw-away module that imports the repository under test ($REPO)
set -e
REPO="${REPO:-/repo}"
TMP=$(mktemp -d /tmp/bounded-XXXXXX)
trap 'rm -rf "$TMP"' EXIT
cp "$(dirname "$0")"/*_test.go "$TMP"/
cat > "$TMP/go.mod" <<EOM
module bounded

go 1.22.0

require github.com/enbility/ship-go v0.0.0
replace github.com/enbility/ship-go => $REPO
EOM
cp "$REPO/go.sum" "$TMP/go.sum"
cd "$TMP"
export GOFLAGS=-mod=mod GOPROXY=off GOSUMDB=off GOTOOLCHAIN=local
BOUNDED_OUT="$2" go test -count=1 -vet=off -timeout 60m -run "^$1\$" . > "$TMP/log.txt" 2>&1 || { cat "$TMP/log.txt" | tail -30; exit 3; }
