package bounded

// Bounded stand-in for property C07 (EEBUS-JSON round trip). NOT a proof: the real functions
// ship.JsonIntoEEBUSJson / ship.JsonFromEEBUSJson are run on every document of a stated finite scope
// (or a seeded sample of it) and compared with an oracle written from the property text.

import (
	"bytes"
	"encoding/json"
	"fmt"
	"math/rand"
	"os"
	"sort"
	"strconv"
	"strings"
	"testing"

	"github.com/enbility/ship-go/ship"
)

// ---- ordered JSON values ----
type jval struct {
	kind string // obj, arr, str, num, true, false, null
	keys []string
	vals []*jval
	lit  string
}

var c07Scalars = []*jval{
	{kind: "num", lit: "0"}, {kind: "num", lit: "1.0"}, {kind: "num", lit: "12345678901234567890123"},
	{kind: "true"}, {kind: "null"},
	{kind: "str", lit: ""}, {kind: "str", lit: "x"}, {kind: "str", lit: "[{"}, {kind: "str", lit: "},{"}, {kind: "str", lit: "}]"},
	{kind: "str", lit: "[]"}, {kind: "str", lit: "{}"}, {kind: "str", lit: ","}, {kind: "str", lit: "\""}, {kind: "str", lit: "\\"},
	// escapes: HTML-sensitive characters, a literal backslash before u0026 / u003c, control and non-ASCII characters
	{kind: "str", lit: "<&>"}, {kind: "str", lit: "\\u0026"}, {kind: "str", lit: "a\\u003cb"}, {kind: "str", lit: "\n\t"}, {kind: "str", lit: "\u00e9\u2028"},
	// number literals: uint64 range, more digits than a float64 holds, exponent form, negative
	{kind: "num", lit: "18446744073709551615"}, {kind: "num", lit: "0.12345678901234567890123"}, {kind: "num", lit: "1e2"}, {kind: "num", lit: "-7"},
	{kind: "false"},
}

// member names: plain, and names whose JSON text needs escapes (control characters, quote, backslash, HTML-sensitive,
// non-ASCII, DEL) - a member name is a JSON string like any other
var c07Keys = []string{"a", "b", "k\u0007", "q\"\\", "<&>", "\u00e9\u2028", "d\u007f\u001b"}

func (v *jval) text(b *bytes.Buffer) {
	switch v.kind {
	case "obj":
		b.WriteByte('{')
		for i, k := range v.keys {
			if i > 0 {
				b.WriteByte(',')
			}
			kb, _ := json.Marshal(k)
			b.Write(kb)
			b.WriteByte(':')
			v.vals[i].text(b)
		}
		b.WriteByte('}')
	case "arr":
		b.WriteByte('[')
		for i, e := range v.vals {
			if i > 0 {
				b.WriteByte(',')
			}
			e.text(b)
		}
		b.WriteByte(']')
	case "str":
		sb, _ := json.Marshal(v.lit)
		b.Write(sb)
	case "num":
		b.WriteString(v.lit)
	default:
		b.WriteString(v.kind)
	}
}

func (v *jval) String() string { var b bytes.Buffer; v.text(&b); return b.String() }

// parse with member order and number literals preserved
func parseOrdered(data []byte) (*jval, error) {
	dec := json.NewDecoder(bytes.NewReader(data))
	dec.UseNumber()
	v, err := parseVal(dec)
	if err != nil {
		return nil, err
	}
	if _, err := dec.Token(); err == nil {
		return nil, fmt.Errorf("trailing data")
	}
	return v, nil
}

func parseVal(dec *json.Decoder) (*jval, error) {
	t, err := dec.Token()
	if err != nil {
		return nil, err
	}
	switch x := t.(type) {
	case json.Delim:
		switch x {
		case '{':
			o := &jval{kind: "obj"}
			for dec.More() {
				kt, err := dec.Token()
				if err != nil {
					return nil, err
				}
				k, ok := kt.(string)
				if !ok {
					return nil, fmt.Errorf("non-string key")
				}
				v, err := parseVal(dec)
				if err != nil {
					return nil, err
				}
				o.keys = append(o.keys, k)
				o.vals = append(o.vals, v)
			}
			if _, err := dec.Token(); err != nil {
				return nil, err
			}
			return o, nil
		case '[':
			a := &jval{kind: "arr"}
			for dec.More() {
				v, err := parseVal(dec)
				if err != nil {
					return nil, err
				}
				a.vals = append(a.vals, v)
			}
			if _, err := dec.Token(); err != nil {
				return nil, err
			}
			return a, nil
		}
	case string:
		return &jval{kind: "str", lit: x}, nil
	case json.Number:
		return &jval{kind: "num", lit: x.String()}, nil
	case bool:
		if x {
			return &jval{kind: "true"}, nil
		}
		return &jval{kind: "false"}, nil
	case nil:
		return &jval{kind: "null"}, nil
	}
	return nil, fmt.Errorf("unexpected token %v", t)
}

func equalJ(a, b *jval) bool {
	if a.kind != b.kind || a.lit != b.lit || len(a.vals) != len(b.vals) || len(a.keys) != len(b.keys) {
		return false
	}
	for i := range a.keys {
		if a.keys[i] != b.keys[i] {
			return false
		}
	}
	for i := range a.vals {
		if !equalJ(a.vals[i], b.vals[i]) {
			return false
		}
	}
	return true
}

// the SHIP-mandated shape: every object becomes an array of single-member objects, nothing else changes;
// the top-level object with one member keeps its braces (the wire document is that single-member object)
func shipShape(v *jval, top bool) *jval {
	switch v.kind {
	case "obj":
		arr := &jval{kind: "arr"}
		for i, k := range v.keys {
			arr.vals = append(arr.vals, &jval{kind: "obj", keys: []string{k}, vals: []*jval{shipShape(v.vals[i], false)}})
		}
		if top && len(arr.vals) == 1 {
			return arr.vals[0]
		}
		return arr
	case "arr":
		a := &jval{kind: "arr"}
		for _, e := range v.vals {
			a.vals = append(a.vals, shipShape(e, false))
		}
		return a
	}
	return v
}

// ---- generator: documents of depth <= 3, <= 3 members/elements, keys {a,b}, the scalar pool ----
func genVal(r *rand.Rand, depth int) *jval {
	c := r.Intn(10)
	if depth <= 0 || c < 5 {
		return c07Scalars[r.Intn(len(c07Scalars))]
	}
	n := r.Intn(4)
	if c < 8 {
		o := &jval{kind: "obj"}
		used := map[string]bool{}
		for i := 0; i < n && i < 2; i++ {
			k := c07Keys[r.Intn(len(c07Keys))]
			if used[k] {
				continue
			}
			used[k] = true
			o.keys = append(o.keys, k)
			o.vals = append(o.vals, genVal(r, depth-1))
		}
		return o
	}
	a := &jval{kind: "arr"}
	for i := 0; i < n; i++ {
		a.vals = append(a.vals, genVal(r, depth-1))
	}
	return a
}

func genDoc(r *rand.Rand) *jval {
	o := &jval{kind: "obj"}
	n := 1 + r.Intn(2)
	if r.Intn(20) == 0 {
		n = 0
	}
	keys := append([]string{}, c07Keys...)
	r.Shuffle(len(keys), func(i, j int) { keys[i], keys[j] = keys[j], keys[i] })
	for i := 0; i < n; i++ {
		o.keys = append(o.keys, keys[i])
		o.vals = append(o.vals, genVal(r, 3))
	}
	return o
}

// causes: the document features on which the pinned implementation is known to fail (known findings);
// a failing document that shows none of them is an unexplained failure.
func c07Category(v *jval, top bool) string {
	cats := map[string]bool{}
	var walk func(v *jval, top bool)
	walk = func(v *jval, top bool) {
		switch v.kind {
		case "str":
			for _, p := range []string{"[{", "},{", "}]", "[]"} {
				if strings.Contains(v.lit, p) {
					cats["string-containing-bracket-pattern"] = true
				}
			}
		case "arr":
			if len(v.vals) == 0 {
				cats["empty-array"] = true
			}
			for _, e := range v.vals {
				walk(e, false)
			}
		case "obj":
			if top && len(v.keys) != 1 {
				cats["top-level-not-single-member"] = true
			}
			for _, e := range v.vals {
				walk(e, false)
			}
		}
	}
	walk(v, top)
	var cs []string
	for c := range cats {
		cs = append(cs, c)
	}
	sort.Strings(cs)
	return strings.Join(cs, "+")
}

type c07Result struct {
	Evaluations int               `json:"evaluations"`
	Distinct    int               `json:"distinct_nontrivial"`
	Failures    map[string]int    `json:"failures_by_category"`
	Examples    map[string]string `json:"minimal_example_by_category"`
	Samples     []string          `json:"samples"`
	Scope       string            `json:"scope"`
	CleanDocs   int               `json:"documents_without_known_cause"`
	CleanPassed int               `json:"documents_without_known_cause_passed"`
}

func TestC07(t *testing.T) {
	n := 200000
	if os.Getenv("VERIF_TIER") == "thorough" {
		n = 3000000
	}
	if s := os.Getenv("BOUNDED_N"); s != "" {
		n, _ = strconv.Atoi(s)
	}
	seed, _ := strconv.ParseInt(os.Getenv("VERIF_SEED"), 10, 64)
	r := rand.New(rand.NewSource(seed + 7))
	res := c07Result{Failures: map[string]int{}, Examples: map[string]string{}, Scope: "JSON documents with an object at top level, depth <= 4, <= 2 members per object (member names from a pool of 7 incl. names that need JSON escapes: control characters, quote, backslash, HTML-sensitive, non-ASCII, DEL), <= 3 elements per array, scalars from a pool of 25 (incl. numbers beyond float64 and uint64 range, exponent form, strings with brackets, braces, commas, quotes, backslashes, HTML-sensitive and escaped characters, control and non-ASCII characters); seeded sample"}
	seen := map[string]bool{}
	for i := 0; i < n; i++ {
		d := genDoc(r)
		txt := d.String()
		if seen[txt] {
			continue
		}
		seen[txt] = true
		res.Evaluations++
		if d.kind == "obj" && len(txt) > 2 {
			res.Distinct++
		}
		if len(res.Samples) < 5 && len(txt) > 20 {
			res.Samples = append(res.Samples, txt)
		}
		fail := ""
		wire, err := ship.JsonIntoEEBUSJson([]byte(txt))
		if err != nil {
			fail = "intoEEBUS error: " + err.Error()
		} else {
			// shape
			wv, perr := parseOrdered([]byte(wire))
			if perr != nil {
				fail = "wire form is not a JSON document: " + wire
			} else if !equalJ(wv, shipShape(d, true)) {
				fail = "wire shape differs: " + wire
			}
			back := ship.JsonFromEEBUSJson([]byte(wire))
			bv, berr := parseOrdered(back)
			if berr != nil {
				fail = "round trip is not JSON: " + string(back)
			} else if !equalJ(bv, d) {
				fail = "round trip differs: " + string(back)
			}
		}
		cat := c07Category(d, true)
		if cat == "" {
			res.CleanDocs++
			if fail == "" {
				res.CleanPassed++
			}
		}
		if fail != "" {
			if cat == "" {
				cat = "UNCLASSIFIED"
			}
			res.Failures[cat]++
			if old, ok := res.Examples[cat]; !ok || len(txt) < len(old[:strings.Index(old+" =>", " =>")]) {
				res.Examples[cat] = txt + " => " + fail
			}
		}
	}
	out, _ := json.MarshalIndent(res, "", " ")
	if p := os.Getenv("BOUNDED_OUT"); p != "" {
		os.WriteFile(p, out, 0o644)
	}
	t.Logf("%s", out)
}
