package hub

// Bounded stand-in (labelled bounded, NOT a proof) for the hub side of property C17: the visible-services
// list handed to the application carries exactly one element per reported mDNS entry, with the entry's
// fields - whatever the pairing/connection situation of the services is.

import (
	"crypto/tls"
	"encoding/json"
	"fmt"
	"math/rand"
	"os"
	"sort"
	"strconv"
	"sync"
	"testing"

	"github.com/enbility/ship-go/api"
	"github.com/enbility/ship-go/model"
)

type c17Reader struct {
	mu   sync.Mutex
	last []api.RemoteService
	n    int
}

func (r *c17Reader) RemoteSKIConnected(string)    {}
func (r *c17Reader) RemoteSKIDisconnected(string) {}
func (r *c17Reader) SetupRemoteDevice(string, api.ShipConnectionDataWriterInterface) api.ShipConnectionDataReaderInterface {
	return nil
}
func (r *c17Reader) VisibleRemoteServicesUpdated(e []api.RemoteService) {
	r.mu.Lock()
	r.last = append([]api.RemoteService{}, e...)
	r.n++
	r.mu.Unlock()
}
func (r *c17Reader) ServiceShipIDUpdate(string, string)                              {}
func (r *c17Reader) ServicePairingDetailUpdate(string, *api.ConnectionStateDetail) {}
func (r *c17Reader) AllowWaitingForTrust(string) bool                               { return false }

type c17Mdns struct{}

func (c17Mdns) Start(api.MdnsReportInterface) error { return nil }
func (c17Mdns) Shutdown()                           {}
func (c17Mdns) AnnounceMdnsEntry() error            { return nil }
func (c17Mdns) UnannounceMdnsEntry()                {}
func (c17Mdns) SetAutoAccept(bool)                  {}
func (c17Mdns) QRCodeText() string                  { return "" }
func (c17Mdns) RequestMdnsEntries()                 {}

type c17Conn struct{ ski string }

func (c *c17Conn) DataHandler() api.WebsocketDataWriterInterface { return nil }
func (c *c17Conn) CloseConnection(bool, int, string)            {}
func (c *c17Conn) RemoteSKI() string                            { return c.ski }
func (c *c17Conn) ApprovePendingHandshake()                     {}
func (c *c17Conn) AbortPendingHandshake()                       {}
func (c *c17Conn) ShipHandshakeState() (model.ShipMessageExchangeState, error) {
	return model.SmeStateComplete, nil
}

func TestC17Hub(t *testing.T) {
	n := 4000
	if os.Getenv("VERIF_TIER") == "thorough" {
		n = 100000
	}
	seed, _ := strconv.ParseInt(os.Getenv("VERIF_SEED"), 10, 64)
	r := rand.New(rand.NewSource(seed + 170))
	type result struct {
		Evaluations int               `json:"evaluations"`
		Distinct    int               `json:"distinct_nontrivial"`
		Failures    map[string]int    `json:"failures_by_category"`
		Examples    map[string]string `json:"minimal_example_by_category"`
		Samples     []string          `json:"samples"`
		Scope       string            `json:"scope"`
		CleanDocs   int               `json:"documents_without_known_cause"`
		CleanPassed int               `json:"documents_without_known_cause_passed"`
	}
	res := result{Failures: map[string]int{}, Examples: map[string]string{}, Scope: "mDNS reports of 0-4 services, each service unknown / connected / untrusted-unqueued (so that no dial is attempted), newEntries true or false; seeded sample"}
	for i := 0; i < n; i++ {
		reader := &c17Reader{}
		h := NewHub(reader, c17Mdns{}, 4711, tls.Certificate{}, api.NewServiceDetails("00"))
		entries := map[string]*api.MdnsEntry{}
		desc := ""
		for k, m := 0, r.Intn(5); k < m; k++ {
			ski := fmt.Sprintf("ski%d", k)
			entries[ski] = &api.MdnsEntry{Name: "n" + ski, Ski: ski, Identifier: "id" + ski, Brand: "b", Type: "t", Model: "m" + ski, Serial: "s", Categories: []api.DeviceCategoryType{1}}
			sit := r.Intn(2)
			if sit == 1 {
				h.registerConnection(&c17Conn{ski: ski})
			}
			desc += fmt.Sprintf("%s:%d ", ski, sit)
		}
		newEntries := r.Intn(2) == 0
		h.ReportMdnsEntries(entries, newEntries)
		res.Evaluations++
		res.Distinct++
		res.CleanDocs++
		if len(res.Samples) < 4 {
			res.Samples = append(res.Samples, desc)
		}
		fail := ""
		reader.mu.Lock()
		if reader.n != 1 {
			fail = fmt.Sprintf("%d visible-services updates for one report", reader.n)
		}
		var got, want []string
		for _, e := range reader.last {
			got = append(got, fmt.Sprintf("%s|%s|%s|%s|%s|%s|%s|%v", e.Name, e.Ski, e.Identifier, e.Brand, e.Type, e.Model, e.Serial, e.Categories))
		}
		reader.mu.Unlock()
		for _, e := range entries {
			want = append(want, fmt.Sprintf("%s|%s|%s|%s|%s|%s|%s|%v", e.Name, e.Ski, e.Identifier, e.Brand, e.Type, e.Model, e.Serial, e.Categories))
		}
		sort.Strings(got)
		sort.Strings(want)
		if fail == "" && fmt.Sprint(got) != fmt.Sprint(want) {
			fail = fmt.Sprintf("visible services %v, reported entries %v", got, want)
		}
		if fail != "" {
			res.Failures["UNCLASSIFIED"]++
			if old, ok := res.Examples["UNCLASSIFIED"]; !ok || len(desc) < len(old) {
				res.Examples["UNCLASSIFIED"] = desc + "=> " + fail
			}
		} else {
			res.CleanPassed++
		}
	}
	out, _ := json.MarshalIndent(res, "", " ")
	if p := os.Getenv("BOUNDED_OUT"); p != "" {
		os.WriteFile(p, out, 0o644)
	}
	t.Logf("%s", out)
}
