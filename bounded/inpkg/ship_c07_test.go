package ship

// Bounded stand-in for property C07, wire level (runs inside package ship through `go test -overlay`).
// NOT a proof. The real send path (sendSpineData: transform + splice into the SHIP data envelope + framing) of
// one connection is fed with SPINE documents of every small size and a set of regular ones, interleaved; the
// frames it hands to the data writer are given to the real receive path (HandleIncomingWebsocketMessage) of a
// second connection, and what that connection's reader receives is compared with what was sent.

import (
	"bytes"
	"encoding/json"
	"errors"
	"fmt"
	"math/rand"
	"os"
	"strconv"
	"strings"
	"testing"

	"github.com/enbility/ship-go/api"
	"github.com/enbility/ship-go/model"
)

type c07Env struct {
	frames   [][]byte
	payloads [][]byte
}

func (e *c07Env) IsRemoteServiceForSKIPaired(string) bool                  { return true }
func (e *c07Env) IsAutoAcceptEnabled() bool                                { return false }
func (e *c07Env) AllowWaitingForTrust(string) bool                         { return false }
func (e *c07Env) HandleConnectionClosed(api.ShipConnectionInterface, bool) {}
func (e *c07Env) ReportServiceShipID(string, string)                       {}
func (e *c07Env) HandleShipHandshakeStateUpdate(string, model.ShipState)   {}
func (e *c07Env) SetupRemoteDevice(string, api.ShipConnectionDataWriterInterface) api.ShipConnectionDataReaderInterface {
	return e
}
func (e *c07Env) HandleShipPayloadMessage(m []byte)                 { e.payloads = append(e.payloads, append([]byte{}, m...)) }
func (e *c07Env) InitDataProcessing(api.WebsocketDataReaderInterface) {}
func (e *c07Env) WriteMessageToWebsocketConnection(m []byte) error {
	e.frames = append(e.frames, m) // kept without copying: the writer queues the slice, as the websocket layer does
	return nil
}
func (e *c07Env) CloseDataConnection(int, string)       {}
func (e *c07Env) IsDataConnectionClosed() (bool, error) { return false, errors.New("open") }

type c07WireResult struct {
	Evaluations int               `json:"evaluations"`
	Distinct    int               `json:"distinct_nontrivial"`
	Failures    map[string]int    `json:"failures_by_category"`
	Examples    map[string]string `json:"minimal_example_by_category"`
	Samples     []string          `json:"samples"`
	Scope       string            `json:"scope"`
	CleanDocs   int               `json:"documents_without_known_cause"`
	CleanPassed int               `json:"documents_without_known_cause_passed"`
}

func c07Canon(b []byte) string {
	var v interface{}
	d := json.NewDecoder(bytes.NewReader(b))
	d.UseNumber()
	if err := d.Decode(&v); err != nil {
		return "!" + string(b)
	}
	o, _ := json.Marshal(v)
	return string(o)
}

func TestC07Wire(t *testing.T) {
	seed, _ := strconv.ParseInt(os.Getenv("VERIF_SEED"), 10, 64)
	r := rand.New(rand.NewSource(seed + 77))
	res := c07WireResult{Failures: map[string]int{}, Examples: map[string]string{},
		Scope: "SPINE documents {\"datagram\":{\"<k>\":\"<v>\"}} whose wire form has every length from 20 to 140 bytes, interleaved with a regular datagram, sent through the real sendSpineData of one connection and received through the real HandleIncomingWebsocketMessage of another; frames are compared only after ALL documents have been sent (the writer queues the slices)"}
	send := &c07Env{}
	sender := NewConnectionHandler(send, send, ShipRoleClient, "LOCAL", "remoteski", "REMOTE")
	sender.smeState = model.SmeStateComplete
	recvEnv := &c07Env{}
	receiver := NewConnectionHandler(recvEnv, recvEnv, ShipRoleServer, "REMOTE", "localski", "LOCAL")
	receiver.smeState = model.SmeStateComplete
	receiver.dataReader = recvEnv

	regular := `{"datagram":{"header":{"specificationVersion":"1.3.0","addressSource":{"device":"d:_i:1","entity":[0],"feature":0},"msgCounter":1,"cmdClassifier":"read"},"payload":{"cmd":[{"nodeManagementDetailedDiscoveryData":{}}]}}}`
	var docs []string
	for n := 0; n <= 120; n++ {
		v := strings.Repeat("x", n)
		if n > 0 && r.Intn(3) == 0 {
			v = v[:n-1] + string(rune('a'+r.Intn(26)))
		}
		docs = append(docs, fmt.Sprintf(`{"datagram":{"v":"%s"}}`, v))
		if n%4 == 0 {
			docs = append(docs, strings.Replace(regular, `"msgCounter":1`, fmt.Sprintf(`"msgCounter":%d`, n+2), 1))
		}
	}
	r.Shuffle(len(docs), func(i, j int) { docs[i], docs[j] = docs[j], docs[i] })
	var sent []string
	for _, d := range docs {
		if err := sender.sendSpineData([]byte(d)); err != nil {
			res.Failures["UNCLASSIFIED"]++
			res.Examples["UNCLASSIFIED"] = d + " => sendSpineData error: " + err.Error()
			continue
		}
		sent = append(sent, d)
	}
	// only now are the queued frames "written": a frame that was modified after it was accepted shows here
	for _, f := range send.frames {
		receiver.HandleIncomingWebsocketMessage(f)
	}
	res.Evaluations = len(sent)
	res.Distinct = len(sent)
	res.CleanDocs = len(sent)
	if len(recvEnv.payloads) != len(sent) {
		res.Failures["UNCLASSIFIED"]++
		res.Examples["UNCLASSIFIED"] = fmt.Sprintf("%d documents sent, %d delivered to the receiving reader", len(sent), len(recvEnv.payloads))
	}
	for i := 0; i < len(sent) && i < len(recvEnv.payloads); i++ {
		if c07Canon(recvEnv.payloads[i]) == c07Canon([]byte(sent[i])) {
			res.CleanPassed++
			continue
		}
		res.Failures["UNCLASSIFIED"]++
		if old, ok := res.Examples["UNCLASSIFIED"]; !ok || len(sent[i]) < len(old) {
			res.Examples["UNCLASSIFIED"] = sent[i] + " => received " + string(recvEnv.payloads[i])
		}
	}
	if len(sent) > 2 {
		res.Samples = sent[:2]
	}
	out, _ := json.MarshalIndent(res, "", " ")
	if p := os.Getenv("BOUNDED_OUT"); p != "" {
		os.WriteFile(p, out, 0o644)
	}
	t.Logf("%s", out)
}
