package mdns

// Bounded stand-in (labelled bounded, NOT a proof) for the address clause of property C17 on an already
// known service: sequences of add / update / remove resolver events over two services and a pool of
// addresses in both encodings are run through the real processMdnsEntry; after every event the known
// entries are compared with a model written from the property text.

import (
	"encoding/json"
	"fmt"
	"math/rand"
	"net"
	"os"
	"sort"
	"strconv"
	"strings"
	"testing"
)

var c17Pool = []net.IP{
	net.ParseIP("10.0.0.1"),        // 16-byte form
	net.ParseIP("10.0.0.1").To4(),  // 4-byte form of the same address
	net.ParseIP("10.0.0.2").To4(),
	net.ParseIP("169.254.7.7"),     // IPv4 link-local: usable
	net.ParseIP("fe80::1"),         // IPv6 link-local: never stored
	net.ParseIP("2001:db8::1"),
}

type c17Event struct {
	Svc    int
	Remove bool
	Addrs  []int
	Bad    int // 0 valid, 1 missing id, 2 txtvers 2, 3 register "maybe", 4 own ski
}

func (e c17Event) String() string {
	return fmt.Sprintf("{svc%d remove=%v addrs=%v invalid=%d}", e.Svc, e.Remove, e.Addrs, e.Bad)
}

func TestC17(t *testing.T) {
	n := 20000
	if os.Getenv("VERIF_TIER") == "thorough" {
		n = 400000
	}
	seed, _ := strconv.ParseInt(os.Getenv("VERIF_SEED"), 10, 64)
	r := rand.New(rand.NewSource(seed + 17))
	type result struct {
		Evaluations int               `json:"evaluations"`
		Distinct    int               `json:"distinct_nontrivial"`
		Failures    map[string]int    `json:"failures_by_category"`
		Examples    map[string]string `json:"minimal_example_by_category"`
		Samples     []string          `json:"samples"`
		Scope       string            `json:"scope"`
		CleanDocs   int               `json:"documents_without_known_cause"`
		CleanPassed int               `json:"documents_without_known_cause_passed"`
	}
	res := result{Failures: map[string]int{}, Examples: map[string]string{}, Scope: "sequences of 1-5 resolver events (add/update/remove, valid or invalid record) over 2 services, each event carrying 0-3 addresses from a pool of 6 (same IPv4 address in 4- and 16-byte form, IPv4 and IPv6 link-local, global IPv6); seeded sample"}
	seen := map[string]bool{}
	for i := 0; i < n; i++ {
		var seq []c17Event
		for k, l := 0, 1+r.Intn(5); k < l; k++ {
			e := c17Event{Svc: r.Intn(2), Remove: r.Intn(5) == 0}
			if r.Intn(6) == 0 {
				e.Bad = 1 + r.Intn(4)
			}
			for a, m := 0, r.Intn(4); a < m; a++ {
				e.Addrs = append(e.Addrs, r.Intn(len(c17Pool)))
			}
			seq = append(seq, e)
		}
		key := fmt.Sprint(seq)
		if seen[key] {
			continue
		}
		seen[key] = true
		res.Evaluations++
		res.Distinct++
		if len(res.Samples) < 4 {
			res.Samples = append(res.Samples, key)
		}
		res.CleanDocs++
		if f := c17Run(seq); f != "" {
			res.Failures["UNCLASSIFIED"]++
			if old, ok := res.Examples["UNCLASSIFIED"]; !ok || len(key) < len(old) {
				res.Examples["UNCLASSIFIED"] = key + " => " + f
			}
		} else {
			res.CleanPassed++
		}
	}
	out, _ := json.MarshalIndent(res, "", " ")
	if p := os.Getenv("BOUNDED_OUT"); p != "" {
		os.WriteFile(p, out, 0o644)
	}
	t.Logf("%s", out)
}

func c17Run(seq []c17Event) string {
	m := NewMDNS("localski", "brand", "model", "type", "serial", nil, "id", "name", 4711, nil, MdnsProviderSelectionGoZeroConfOnly)
	model := map[string]map[string]bool{} // ski -> set of address texts
	for step, e := range seq {
		ski := fmt.Sprintf("ski%d", e.Svc)
		el := map[string]string{"txtvers": "1", "id": "id" + ski, "path": "/ship/", "ski": ski, "register": "false"}
		switch e.Bad {
		case 1:
			delete(el, "id")
		case 2:
			el["txtvers"] = "2"
		case 3:
			el["register"] = "maybe"
		case 4:
			el["ski"] = "localski"
		}
		var addrs []net.IP
		for _, a := range e.Addrs {
			addrs = append(addrs, c17Pool[a])
		}
		m.processMdnsEntry(el, "name", "host", addrs, 4712, e.Remove)
		if e.Bad == 0 {
			if e.Remove {
				delete(model, ski)
			} else {
				if model[ski] == nil {
					model[ski] = map[string]bool{}
				}
				for _, a := range addrs {
					if a.To4() == nil && a.IsLinkLocalUnicast() {
						continue
					}
					model[ski][a.String()] = true
				}
			}
		}
		// compare
		got := m.mdnsEntries()
		if len(got) != len(model) {
			return fmt.Sprintf("after event %d the known services are %v, expected %v", step, keysOf(got), keysOfSet(model))
		}
		for k, want := range model {
			ent, ok := got[k]
			if !ok {
				return fmt.Sprintf("after event %d service %s is not known", step, k)
			}
			cnt := map[string]int{}
			for _, a := range ent.Addresses {
				cnt[a.String()]++
				if a.To4() == nil && a.IsLinkLocalUnicast() {
					return fmt.Sprintf("after event %d service %s carries the IPv6 link-local address %s", step, k, a)
				}
			}
			for a, c := range cnt {
				if c > 1 {
					return fmt.Sprintf("after event %d service %s carries address %s %d times: %v", step, k, a, c, ent.Addresses)
				}
				if !want[a] {
					return fmt.Sprintf("after event %d service %s carries address %s that was never reported", step, k, a)
				}
			}
			for a := range want {
				if cnt[a] == 0 {
					return fmt.Sprintf("after event %d service %s lacks the reported address %s: %v", step, k, a, ent.Addresses)
				}
			}
		}
	}
	return ""
}

func keysOf[V any](m map[string]V) []string {
	var ks []string
	for k := range m {
		ks = append(ks, k)
	}
	sort.Strings(ks)
	return ks
}

func keysOfSet(m map[string]map[string]bool) []string { return keysOf(m) }

var _ = strings.Join
