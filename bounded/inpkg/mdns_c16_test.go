package mdns

// Bounded stand-in for property C16 (runs inside package mdns through `go test -overlay`, so the real
// unexported functions shortenString, parseTxt, AnnounceMdnsEntry, processMdnsEntry and QRCodeText are used).
// NOT a proof: a finite scope of configuration strings built around the 32-byte boundary.

import (
	"encoding/json"
	"fmt"
	"math/rand"
	"net"
	"os"
	"sort"
	"strconv"
	"strings"
	"testing"
	"unicode/utf8"

	"github.com/enbility/ship-go/api"
)

type c16Provider struct{ txt []string }

func (p *c16Provider) Start(bool, api.MdnsResolveCB) bool { return true }
func (p *c16Provider) Shutdown()                          {}
func (p *c16Provider) Announce(name string, port int, txt []string) error {
	p.txt = append([]string{}, txt...)
	return nil
}
func (p *c16Provider) Unannounce() {}

var c16Atoms = []string{"a", "=", ";", ":", ",", "ä", "€", "😀", " "}

func c16String(r *rand.Rand) string {
	var b strings.Builder
	switch r.Intn(4) {
	case 0: // short
	case 1:
		b.WriteString(strings.Repeat("a", 26+r.Intn(8)))
	default:
		b.WriteString(strings.Repeat("b", 28+r.Intn(5)))
	}
	for i, n := 0, r.Intn(4); i < n; i++ {
		b.WriteString(c16Atoms[r.Intn(len(c16Atoms))])
	}
	return b.String()
}

func c16Causes(vals map[string]string) string {
	cs := map[string]bool{}
	for k, v := range vals {
		if strings.Contains(v, "=") && k != "ski" {
			cs["value-contains-equals"] = true
		}
		if (k == "ski" || k == "id") && strings.Contains(v, "=") {
			cs["value-contains-equals"] = true
		}
		if len(v) > 32 && !utf8.RuneStart(v[32]) && (k == "brand" || k == "model" || k == "type" || k == "serial") {
			cs["multibyte-rune-at-32-byte-boundary"] = true
		}
		if (k == "ski" || k == "id") && strings.Contains(v, ";") {
			cs["semicolon-in-ski-or-identifier"] = true
		}
	}
	var out []string
	for c := range cs {
		out = append(out, c)
	}
	sort.Strings(out)
	return strings.Join(out, "+")
}

type c16Result struct {
	Evaluations int               `json:"evaluations"`
	Distinct    int               `json:"distinct_nontrivial"`
	Failures    map[string]int    `json:"failures_by_category"`
	Examples    map[string]string `json:"minimal_example_by_category"`
	Samples     []string          `json:"samples"`
	Scope       string            `json:"scope"`
	CleanDocs   int               `json:"documents_without_known_cause"`
	CleanPassed int               `json:"documents_without_known_cause_passed"`
}

func TestC16(t *testing.T) {
	n := 20000
	if os.Getenv("VERIF_TIER") == "thorough" {
		n = 400000
	}
	seed, _ := strconv.ParseInt(os.Getenv("VERIF_SEED"), 10, 64)
	r := rand.New(rand.NewSource(seed + 16))
	res := c16Result{Failures: map[string]int{}, Examples: map[string]string{}, Scope: "service configurations whose ski, id, brand, model, type, serial are strings of 0-3 atoms from {a = ; : , ä € 😀 space} optionally after a run of 26-33 ASCII letters (so multi-byte runes straddle the 32-byte cut); category lists of <= 3 entries; both auto-accept values; seeded sample"}
	seen := map[string]bool{}
	for i := 0; i < n; i++ {
		vals := map[string]string{"ski": c16String(r), "id": c16String(r), "brand": c16String(r), "model": c16String(r), "type": c16String(r), "serial": c16String(r)}
		if vals["ski"] == "" {
			vals["ski"] = "ski"
		}
		var cats []api.DeviceCategoryType
		for j, k := 0, r.Intn(4); j < k; j++ {
			cats = append(cats, api.DeviceCategoryType([]uint{1, 2, 10, 4294967295}[r.Intn(4)]))
		}
		auto := r.Intn(2) == 0
		port := 1 + r.Intn(65535)
		key := fmt.Sprint(vals, cats, auto)
		if seen[key] {
			continue
		}
		seen[key] = true
		res.Evaluations++
		res.Distinct++
		if len(res.Samples) < 4 {
			res.Samples = append(res.Samples, key)
		}
		fail := c16One(vals, cats, auto, port)
		cause := c16Causes(vals)
		if cause == "" {
			res.CleanDocs++
			if fail == "" {
				res.CleanPassed++
			}
		}
		if fail != "" {
			if cause == "" {
				cause = "UNCLASSIFIED"
			}
			res.Failures[cause]++
			if old, ok := res.Examples[cause]; !ok || len(key) < len(old) {
				res.Examples[cause] = key + " => " + fail
			}
		}
	}
	out, _ := json.MarshalIndent(res, "", " ")
	if p := os.Getenv("BOUNDED_OUT"); p != "" {
		os.WriteFile(p, out, 0o644)
	}
	t.Logf("%s", out)
}

func c16One(vals map[string]string, cats []api.DeviceCategoryType, auto bool, port int) string {
	m := NewMDNS(vals["ski"], vals["brand"], vals["model"], vals["type"], vals["serial"], cats, vals["id"], "name", port, nil, MdnsProviderSelectionGoZeroConfOnly)
	p := &c16Provider{}
	m.mdnsProvider = p
	m.autoaccept = auto
	for k, got := range map[string]string{"brand": m.deviceBrand, "model": m.deviceModel, "type": m.deviceType, "serial": m.deviceSerial} {
		if len(got) > 32 {
			return "announced " + k + " longer than 32 bytes"
		}
		if utf8.ValidString(vals[k]) && !utf8.ValidString(got) {
			return fmt.Sprintf("announced %s %q is not valid UTF-8", k, got)
		}
		if !strings.HasPrefix(vals[k], got) {
			return "announced " + k + " is not a prefix of the configured value"
		}
	}
	if err := m.AnnounceMdnsEntry(); err != nil {
		return "announce failed: " + err.Error()
	}
	elements := parseTxt(p.txt)
	browser := NewMDNS("browser-ski", "b", "m", "t", "s", nil, "browser", "name", 1, nil, MdnsProviderSelectionGoZeroConfOnly)
	browser.processMdnsEntry(elements, "name", "host", []net.IP{net.ParseIP("10.0.0.1")}, port, false)
	e, ok := browser.mdnsEntry(vals["ski"])
	if !ok {
		return fmt.Sprintf("no entry read back for announced TXT %q", p.txt)
	}
	want := map[string]string{"ski": vals["ski"], "id": vals["id"], "path": "/ship/", "brand": m.deviceBrand, "model": m.deviceModel, "type": m.deviceType, "serial": m.deviceSerial}
	got := map[string]string{"ski": e.Ski, "id": e.Identifier, "path": e.Path, "brand": e.Brand, "model": e.Model, "type": e.Type, "serial": e.Serial}
	for k, w := range want {
		if got[k] != w {
			return fmt.Sprintf("entry %s = %q, announced %q", k, got[k], w)
		}
	}
	if e.Register != auto {
		return "entry register flag differs"
	}
	if len(e.Categories) != len(cats) {
		return fmt.Sprintf("entry categories %v, announced %v", e.Categories, cats)
	}
	for i := range cats {
		if e.Categories[i] != cats[i] {
			return fmt.Sprintf("entry categories %v, announced %v", e.Categories, cats)
		}
	}
	if e.Port != port {
		return "port differs"
	}
	// QR code: SHIP;SKI:..;ID:..;K:V;..ENDSHIP;
	qr := m.QRCodeText()
	if !strings.HasPrefix(qr, "SHIP;") || !strings.HasSuffix(qr, "ENDSHIP;") {
		return "QR text frame wrong: " + qr
	}
	body := strings.TrimSuffix(strings.TrimPrefix(qr, "SHIP;"), "ENDSHIP;")
	fields := map[string]string{}
	var order []string
	for _, f := range strings.Split(strings.TrimSuffix(body, ";"), ";") {
		kv := strings.SplitN(f, ":", 2)
		if len(kv) != 2 {
			return fmt.Sprintf("QR field %q without ':' in %q", f, qr)
		}
		if _, dup := fields[kv[0]]; dup {
			return fmt.Sprintf("QR field %s occurs twice in %q", kv[0], qr)
		}
		fields[kv[0]] = kv[1]
		order = append(order, kv[0])
	}
	strip := func(s string) string { return strings.ReplaceAll(s, ";", "") }
	wantQR := map[string]string{"SKI": strip(vals["ski"]), "ID": strip(vals["id"])}
	for k, v := range map[string]string{"BRAND": m.deviceBrand, "TYPE": m.deviceType, "MODEL": m.deviceModel, "SERIAL": m.deviceSerial} {
		if len(v) > 0 && len(strip(v)) >= 0 {
			wantQR[k] = strip(v)
		}
	}
	if cats != nil {
		cs := m.deviceCategoriesString(cats)
		if len(cs) > 0 {
			wantQR["CAT"] = cs
		}
	}
	if len(fields) != len(wantQR) {
		return fmt.Sprintf("QR text %q parses into fields %v, expected %v", qr, order, wantQR)
	}
	for k, v := range wantQR {
		if fields[k] != v {
			return fmt.Sprintf("QR field %s = %q, expected %q (%q)", k, fields[k], v, qr)
		}
	}
	return ""
}
