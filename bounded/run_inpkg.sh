#!/bin/sh
# run_inpkg.sh <pkgdir> <file> <TestName> <out.json>: run an in-package bounded test through go test -overlay (nothing is written into $REPO)
set -e
REPO="${REPO:-/repo}"
TMP=$(mktemp -d /tmp/bounded-XXXXXX)
trap 'rm -rf "$TMP"' EXIT
printf '{"Replace": {"%s/%s/zz_govc_bounded_test.go": "%s"}}' "$REPO" "$1" "$2" > "$TMP/ov.json"
cd "$REPO"
export GOFLAGS=-mod=mod GOPROXY=off GOSUMDB=off GOTOOLCHAIN=local
BOUNDED_OUT="$4" go test -overlay "$TMP/ov.json" -count=1 -vet=off -timeout 60m -run "^$3\$" "./$1" > "$TMP/log.txt" 2>&1 || { tail -30 "$TMP/log.txt"; exit 3; }
