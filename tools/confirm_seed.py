#!/usr/bin/env python3
"""Confirm a seeded change delivered by a sub-agent and, if confirmed, store it under /verif/seeded/<name>/.
usage: confirm_seed.py <dir with patch.diff demo_test.go meta.json> <name>
Steps (all in a scratch copy of /repo's working tree, removed afterwards):
  demo passes without the patch; patch applies; go build + go vet-less test compile; demo fails with the patch;
  the BASELINE stable_pass tests still pass with the patch."""
import json, os, re, shutil, subprocess, sys, tempfile
src, name = sys.argv[1], sys.argv[2]
env = dict(os.environ, GOFLAGS='-mod=mod', GOPROXY='off', GOSUMDB='off', GOTOOLCHAIN='local')
tmp = tempfile.mkdtemp(prefix='cs-', dir='/tmp')
log = []
def sh(cmd, cwd, timeout=900, extra_env=None):
    e = dict(env); e.update(extra_env or {})
    p = subprocess.run(cmd, cwd=cwd, env=e, capture_output=True, text=True, errors='replace', shell=isinstance(cmd, str), timeout=timeout)
    return p.returncode, (p.stdout + p.stderr)
try:
    repo = tmp + '/repo'
    subprocess.run(['rsync', '-a', '--exclude', '.git', '/repo/', repo + '/'], check=True)
    demo = open(os.path.join(src, 'demo_test.go')).read()
    m = re.search(r'place in:\s*([\w/]+)', demo)
    pkg = m.group(1).strip('/') if m else None
    if not pkg:
        print('FAIL: demo does not state its package directory'); sys.exit(1)
    shutil.copy(os.path.join(src, 'demo_test.go'), os.path.join(repo, pkg, 'zz_seed_demo_test.go'))
    tests = re.findall(r'^func (Test\w+)\(', demo, re.M)
    runre = '^(' + '|'.join(tests) + ')$'
    rc0, out0 = sh(['go', 'test', '-vet=off', '-count=1', '-timeout', '120s', '-run', runre, './' + pkg], repo)
    log.append('demo without patch: rc=%d' % rc0)
    if rc0 != 0:
        print('FAIL: demo does not pass on the current tree\n' + out0[-1500:]); sys.exit(1)
    rc, out = sh(['patch', '-p1', '--no-backup-if-mismatch', '-i', os.path.abspath(os.path.join(src, 'patch.diff'))], repo)
    if rc != 0:
        print('FAIL: patch does not apply to the current tree\n' + out[-800:]); sys.exit(1)
    rc, out = sh('go build ./... && go test -vet=off -count=1 -run XXX ./... ', repo)
    if rc != 0:
        print('FAIL: does not compile with patch\n' + out[-1500:]); sys.exit(1)
    rc1, out1 = sh(['go', 'test', '-vet=off', '-count=1', '-timeout', '120s', '-run', runre, './' + pkg], repo)
    log.append('demo with patch: rc=%d' % rc1)
    if rc1 == 0:
        print('FAIL: demo passes with the patch'); sys.exit(1)
    os.remove(os.path.join(repo, pkg, 'zz_seed_demo_test.go'))
    rc2, out2 = sh(['python3', '/verif/tools/baseline.py', repo], '/verif', timeout=1800)
    log.append('baseline with patch: ' + out2.strip().splitlines()[0] if out2.strip() else 'baseline: no output')
    if rc2 != 0:
        print('FAIL: existing tests do not pass with the patch\n' + out2[-1500:]); sys.exit(1)
    dst = '/verif/seeded/' + name
    os.makedirs(dst, exist_ok=True)
    shutil.copy(os.path.join(src, 'patch.diff'), dst + '/patch.diff')
    shutil.copy(os.path.join(src, 'demo_test.go'), dst + '/demo_test.go')
    meta = json.load(open(os.path.join(src, 'meta.json')))
    meta['expect'] = 'fail'
    meta['confirmed_by_me'] = log
    meta['demo_failure_excerpt'] = [l for l in out1.splitlines() if 'FAIL' in l or 'Error' in l or 'panic' in l][:6]
    json.dump(meta, open(dst + '/meta.json', 'w'), indent=1)
    print('CONFIRMED', name, '; '.join(log))
finally:
    shutil.rmtree(tmp, ignore_errors=True)
