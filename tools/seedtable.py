#!/usr/bin/env python3
"""Render selftest/results.json as the table of DESIGN.md section C.6 (replaces the block between the markers)."""
import json, re, os
V = os.path.dirname(os.path.dirname(os.path.abspath(__file__)))
res = json.load(open(V + '/selftest/results.json'))
rows = ['| case | what was changed | check that reports it | first failed obligation |', '|------|------------------|-----------------------|-------------------------|']
for k in sorted(res):
    r = res[k]
    m = re.search(r'(C\d\d) exit=1', r['output'])
    prop = m.group(1) if m else ('-' if r['as_expected'] else 'MISSED')
    ob = re.search(r'(?:obligation|function|contract) (.*?) (?:not discharged|rejected|orphaned)', r['output'])
    rows.append('| %s | %s | %s | %s |' % (k.replace('selftest/mustfail/', '').replace('seeded/', 'seed '), (r['summary'] or '')[:110].replace('|', '/'), prop if r['as_expected'] else 'MISSED', ('`' + ob.group(1)[:90] + '`') if ob else ''))
table = '\n'.join(rows)
p = V + '/DESIGN.md'
s = open(p).read()
if 'SEEDED_TABLE' in s:
    s = s.replace('SEEDED_TABLE', '<!-- seedtable:begin -->\n' + table + '\n<!-- seedtable:end -->')
else:
    s = re.sub(r'<!-- seedtable:begin -->.*?<!-- seedtable:end -->', '<!-- seedtable:begin -->\n' + table.replace('\\', '\\\\') + '\n<!-- seedtable:end -->', s, flags=re.S)
open(p, 'w').write(s)
print(len(rows) - 2, 'rows')
