#!/usr/bin/env python3
"""Regenerate MANIFEST.hooks.source_commits from /repo's history: every commit whose subject starts with "verif:"."""
import json, subprocess, sys
repo = sys.argv[1] if len(sys.argv) > 1 else '/repo'
log = subprocess.run(['git', '-C', repo, 'log', '--reverse', '--format=%h %s'], capture_output=True, text=True, check=True).stdout
commits = [l.split()[0] for l in log.splitlines() if l.split(' ', 1)[1].startswith('verif:')]
p = '/verif/MANIFEST.json'
m = json.load(open(p))
m['hooks']['source_commits'] = commits
json.dump(m, open(p, 'w'), indent=1)
print(len(commits), 'verif: commits')
