#!/bin/sh
# run every registered check (quick tier unless $1 = thorough) and print the summary lines
cd "$(dirname "$0")/.."
TIER="${1:-quick}"
for p in $(python3 -c "import json;print(' '.join(c['property_id'] for c in json.load(open('MANIFEST.json'))['checks']))"); do
  ./check $p $TIER | grep -E "^(VIOLATION|KNOWN-FINDING|property )" | cut -c1-220
done
