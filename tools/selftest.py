#!/usr/bin/env python3
"""Self-test of the checks against property-breaking patches (must-fail) and harmless refactorings (must-pass).

usage: selftest.py [-j N] [--only REGEX] [dirs...]
Default dirs: /verif/selftest/mustfail/*, /verif/selftest/mustpass/*, /verif/seeded/*
Every case directory holds patch.diff and meta.json:
  {"property": "C04" | "properties": [...], "expect": "fail"|"pass", "obligation": "<optional regex the VIOLATION output must contain>"}
For each case the current /repo working tree is copied to a scratch directory outside /repo and /verif,
the patch is applied there, the property's quick check is run with REPO=<copy>, and the copy is removed.
"""
import json, os, re, shutil, subprocess, sys, tempfile, concurrent.futures, glob, time

VERIF = os.path.dirname(os.path.dirname(os.path.abspath(__file__)))
REPO = os.environ.get('SELFTEST_REPO', '/repo')

def run_case(d):
    d = os.path.abspath(d)
    meta = json.load(open(os.path.join(d, 'meta.json')))
    props = meta.get('properties') or [meta['property']]
    props = meta.get('check_properties', props)
    expect = meta.get('expect', 'fail')
    tmp = tempfile.mkdtemp(prefix='st-', dir='/tmp')
    out = []
    ok = True
    try:
        subprocess.run(['rsync', '-a', '--exclude', '.git', REPO + '/', tmp + '/repo/'], check=True)
        r = subprocess.run(['patch', '-p1', '--no-backup-if-mismatch', '-i', os.path.join(d, 'patch.diff')], cwd=tmp + '/repo', capture_output=True, text=True)
        if r.returncode != 0:
            return d, False, 'PATCH DOES NOT APPLY: ' + r.stdout[-300:] + r.stderr[-300:]
        env = dict(os.environ, REPO=tmp + '/repo', EVIDENCE_DIR=tmp + '/evidence', REPLAY_DIR=tmp + '/replays')
        for p in props:
            t0 = time.time()
            r = subprocess.run([os.path.join(VERIF, 'check'), p, 'quick'], env=env, capture_output=True, text=True, cwd=VERIF)
            vio = [l for l in r.stdout.splitlines() if l.startswith('VIOLATION') or l.startswith('  obligation') or l.startswith('  function') or l.startswith('  contract')]
            if expect == 'fail':
                good = r.returncode == 1 and any(l.startswith('VIOLATION property=%s ' % p) for l in vio)
                if good and meta.get('obligation'):
                    good = re.search(meta['obligation'], r.stdout) is not None
            else:
                good = r.returncode == 0 and not any(l.startswith('VIOLATION') for l in vio)
            out.append('%s exit=%d %.0fs %s' % (p, r.returncode, time.time() - t0, '; '.join(v.strip()[:160] for v in vio[:4]) if vio else r.stdout.strip().splitlines()[-1][:160] if r.stdout.strip() else r.stderr[-200:]))
            if expect == 'fail':
                if good:
                    ok = True
                    break
                ok = False
            else:
                ok = ok and good
    finally:
        shutil.rmtree(tmp, ignore_errors=True)
    return d, ok, ' | '.join(out)

RESULTS = {}

def main():
    args = sys.argv[1:]
    jobs = 3
    only = None
    dirs = []
    i = 0
    while i < len(args):
        if args[i] == '-j':
            jobs = int(args[i + 1]); i += 2
        elif args[i] == '--only':
            only = re.compile(args[i + 1]); i += 2
        else:
            dirs.append(args[i]); i += 1
    if not dirs:
        dirs = sorted(glob.glob(VERIF + '/selftest/mustfail/*') + glob.glob(VERIF + '/selftest/mustpass/*') + glob.glob(VERIF + '/seeded/*'))
    dirs = [d for d in dirs if os.path.exists(os.path.join(d, 'meta.json')) and os.path.exists(os.path.join(d, 'patch.diff'))]
    if only:
        dirs = [d for d in dirs if only.search(d)]
    bad = 0
    with concurrent.futures.ThreadPoolExecutor(jobs) as ex:
        for d, ok, msg in ex.map(run_case, dirs):
            meta = json.load(open(os.path.join(d, 'meta.json')))
            print('%s %-40s expect=%s  %s' % ('OK  ' if ok else 'MISS', os.path.relpath(d, VERIF), meta.get('expect', 'fail'), msg), flush=True)
            RESULTS[os.path.relpath(d, VERIF)] = {'as_expected': ok, 'expect': meta.get('expect', 'fail'), 'summary': meta.get('summary') or meta.get('what', ''), 'output': msg[:400]}
            bad += 0 if ok else 1
    print('%d cases, %d not as expected' % (len(dirs), bad))
    if os.environ.get('SELFTEST_RUNNING'):
        sys.exit(1 if bad else 0)  # a slice run from a thorough check: do not touch the recorded results
    # keep the most recent outcome per case for DESIGN.md (tools/seedtable.py)
    resf = os.path.join(VERIF, 'selftest', 'results.json')
    try:
        allres = json.load(open(resf))
    except Exception:
        allres = {}
    allres.update(RESULTS)
    json.dump(allres, open(resf, 'w'), indent=1, sort_keys=True)
    sys.exit(1 if bad else 0)

main()
