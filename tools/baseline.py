#!/usr/bin/env python3
"""Run the repository's test suite (guard off) and compare with the stable_pass list of BASELINE.json.
usage: baseline.py [repo]   exit 0 iff every stable_pass test passed."""
import json, os, subprocess, sys
repo = sys.argv[1] if len(sys.argv) > 1 else '/repo'
base = json.load(open('/root/.vp/BASELINE.json'))
env = dict(os.environ, GOFLAGS='-mod=mod', GOPROXY='off', GOSUMDB='off', GOTOOLCHAIN='local')
p = subprocess.run(['go', 'test', '-json', '-vet=off', '-count=1', '-timeout', '25m', './...'], cwd=repo, env=env, capture_output=True, text=True)
passed = set()
for ln in p.stdout.splitlines():
    try:
        e = json.loads(ln)
    except Exception:
        continue
    if e.get('Action') == 'pass' and e.get('Test'):
        passed.add(e['Package'] + '::' + e['Test'])
missing = [t for t in base['stable_pass'] if t not in passed]
print('stable_pass: %d, passed now: %d, missing: %d' % (len(base['stable_pass']), len(passed), len(missing)))
for t in missing:
    print('  MISSING', t)
sys.exit(1 if missing else 0)
