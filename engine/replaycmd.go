package main

import (
	"encoding/json"
	"fmt"
	"os"
)

// cmdReplay: ./check --replay <file>  - show a replay file and re-run what it records:
// the SMT query of the failed obligation on all solvers and, when a driver exists, the scenario on the real code.
func cmdReplay(args []string) {
	if len(args) < 1 {
		fmt.Println("usage: govc replay <replay.json> [repo]")
		os.Exit(2)
	}
	data, err := os.ReadFile(args[0])
	if err != nil {
		fmt.Println(err)
		os.Exit(2)
	}
	var r map[string]interface{}
	if err := json.Unmarshal(data, &r); err != nil {
		fmt.Println(err)
		os.Exit(2)
	}
	fmt.Printf("property:   %v\nobligation: %v\nclause:     %v\nat:         %v\nstatus:     %v\n", r["property"], r["obligation"], r["clause"], r["position"], r["status"])
	if p, ok := r["path"].([]interface{}); ok && len(p) > 0 {
		fmt.Printf("path:       %v\n", p)
	}
	if ex, ok := r["failing_input_and_observation"]; ok {
		fmt.Printf("failing input and observation (real code): %v\n", ex)
	}
	still := false
	if q, ok := r["smt_query"].(string); ok {
		if script, err := os.ReadFile(q); err == nil {
			fmt.Println("re-running the recorded query:")
			for _, res := range raceSingle(string(script), 20000, []string{"z3-new", "z3", "cvc5"}) {
				fmt.Printf("  %-7s %s (%.1fs)\n", res.Solver, res.Status, res.Secs)
				if res.Status == "sat" || res.Status == "unknown" || res.Status == "timeout" {
					still = true
				}
			}
		}
	}
	if rp, ok := r["replay"].(map[string]interface{}); ok {
		fmt.Printf("replay driver: %v\n  reproduced on the real code: %v\n", rp["driver"], rp["reproduced"])
		if sc, ok := rp["failing_scenario"]; ok {
			b, _ := json.MarshalIndent(sc, "  ", " ")
			fmt.Printf("  failing scenario: %s\n", b)
		}
		if rp["reproduced"] == true {
			still = true
		}
	}
	if still {
		os.Exit(1)
	}
}
