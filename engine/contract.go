package main

// Parser for the comment-only contract files /repo/<pkg>/verif_contracts.go (build tag `verif`).

import (
	"fmt"
	"os"
	"path/filepath"
	"regexp"
	"sort"
	"strings"
)

type Clause struct {
	Kind  string // requires, ensures, invariant, decreases, assert
	Tags  []string
	Label string
	Src   string
	E     Expr
	Line  int
	File  string
}

type ModEntry struct {
	Src   string
	E     Expr   // e.f form: E = base expression, Field = f ; or whole class: E=nil, Class="T.f"
	Field string // field name (possibly ghost)
	Class string // for whole-class entries "T.f" / "$Global"
	Index Expr   // optional: m[k] granular (ghost maps / maps)
}

type FuncContract struct {
	Key      string // canonical function key
	Kind     string // func, iface, lib, closure
	Recv     string // receiver name ("" for plain functions)
	Params   []string
	Requires []*Clause
	Ensures  []*Clause
	Modifies []*ModEntry
	ModAll   bool     // modifies *  (everything not immutable)
	ModExcept []string // modifies * except T1, T2: the fields of these struct types stay untouched (qualified type names)
	Havocs   []string // parameter names whose pointee is havoc'd deeply
	Decr     []*Clause
	Inline   bool
	Pure     bool
	Entry    bool
	Trusted  bool // contract assumed, body not verified (listed in evidence)
	NoReturn bool
	Tags     []string // properties this function is listed under
	Pkg      string   // package path of the contract file
	File     string
	Line     int
	Implements string  // key of the iface contract this function must also satisfy
	Holds    []string // lock keys (e.g. p:h.muxReg) the function is documented to be called with
	Establishes []Expr // objects whose object invariants this function establishes (constructors / initialisers)
	Spawns   []*Clause // spawn effects for closures started with `go`
	AtCalls  map[string][]*Clause // callee name -> obligations at every call of that callee inside this function
	InterfVar string      // `interference x: list`: at every blocking select of this function other goroutines may have changed the listed locations;
	Interf    []*ModEntry // the object invariants of x are assumed again afterwards and old() refers to the state after that point
	Used     bool
}

type LoopContract struct {
	FuncKey    string
	Ordinal    int
	Invariants []*Clause
	Decr       []*Clause
	Pkg        string
	Binds      map[string]string // spec name -> source variable name
}

type PredDef struct {
	Name   string
	Params []string
	Sorts  []string
	Ret    string // Bool unless stated
	Body   Expr
	Src    string
	Pkg    string
	Uninterp bool
}

type TableDef struct {
	Name      string
	Pkg       string
	Rows      []tableRow // role ("" = both), from, to
	Reflexive bool
	Sink      string // a state reachable from everywhere
	RoleNames []string
}
type tableRow struct{ Role, From, To string }

type GhostDecl struct {
	Global bool
	Type   string // struct type name (qualified with package path) for fields
	Name   string
	Sort   string // SMT sort
	Pkg    string
}

type LemmaDef struct {
	Name string
	Tags []string
	E    Expr
	Src  string
	Pkg  string
}

type AxiomDef struct {
	Name string
	E    Expr
	Src  string
	Pkg  string
	Note string
}

type TypeInv struct {
	Type  string // qualified struct type
	Var   string
	E     Expr
	Src   string
	Pkg   string
	Tags  []string
	Label string
}

type GuardDecl struct {
	Why    string   // noclaim: the stated reason
	Kind   string   // guarded, immutable, initonly, noclaim
	Fields []string // qualified T.f
	By     string   // qualified T.m
	In     []string // function keys allowed to write (initonly)
	Pkg    string
	Owner  bool // `by owner T.m`: the mutex of the object owning the container the guarded objects live in
}

type Contracts struct {
	Funcs     map[string]*FuncContract
	Loops     map[string]*LoopContract // key: funcKey#ordinal
	Preds     map[string]*PredDef
	Tables    map[string]*TableDef
	Derived   map[string][2]string // name -> (kind, table)
	Ghosts    []*GhostDecl
	Lemmas    []*LemmaDef
	Axioms    []*AxiomDef
	TypeInvs  map[string]*TypeInv
	Guards    []*GuardDecl
	Immutable map[string]bool // qualified T.f
	Files     []string
	Consts    map[string]string // spec constants name -> value source
	ModSets   map[string][2]string // name -> (param, list text)
	ObjInvs   map[string][]*TypeInv // qualified type -> invariants over mutable state (assumed at entry / proved at exit of `entry` methods)
	Abstractions map[string]*Abstraction // ghost global name -> definition over the state of a receiver type
	Writers   []*WritersDecl
	GlobalInvs map[string][]*Clause // package path -> invariants over package-level variables
	GhostDefs  map[string]*GhostDef // qualified type + "." + $name -> definition over the object's real fields (used when an implementation is verified against an interface contract)
}

// GhostDef: `ghostdef (w *T).$g := expr` - for objects of type T the ghost attribute $g of an interface contract IS expr.
type GhostDef struct {
	Var  string
	Type string
	Name string
	E    Expr
	Src  string
	Pkg  string
}

// WritersDecl: `writers [tags] T.f in F1, F2` - only the listed functions may store to field T.f (syntactic, whole module).
type WritersDecl struct {
	LockFree bool // `lockfree [tags] T.m in F...`: the listed functions and everything they call in the module never lock T.m
	Tags  []string
	Field string // qualified T.f
	Funcs []string
	Src   string
	Pkg   string
}

// Abstraction defines a ghost global map as a function of the state of the object whose method is being
// verified:  abstraction $Trusted[s] of (h *Hub) := <expr over h and s>
type Abstraction struct {
	Name string
	Key  string // bound variable for the index
	Var  string // receiver variable
	Type string // qualified receiver type
	E    Expr
	Src  string
	Pkg  string
	Havocs []*ModEntry // concrete locations a callee's `modifies $G[k]` stands for
}

func newContracts() *Contracts {
	return &Contracts{Funcs: map[string]*FuncContract{}, Loops: map[string]*LoopContract{}, Preds: map[string]*PredDef{},
		Tables: map[string]*TableDef{}, Derived: map[string][2]string{}, TypeInvs: map[string]*TypeInv{}, Immutable: map[string]bool{}, Consts: map[string]string{}, ModSets: map[string][2]string{}, ObjInvs: map[string][]*TypeInv{}, Abstractions: map[string]*Abstraction{}, GlobalInvs: map[string][]*Clause{}}
}

var (
	reTags  = regexp.MustCompile(`^\[([A-Za-z0-9_,\- ]*)\]\s*`)
	reLabel = regexp.MustCompile(`^([A-Za-z][A-Za-z0-9_\-]*):\s+`)
	reFunc  = regexp.MustCompile(`^(func|iface|lib|closure|functype)\s+(?:\((\w+)\s+(\*?)([\w./\-]+)\)\.)?([\w./\-$\[\]]+)\s*(?:\(([^)]*)\))?\s*(.*)$`)
)

// qualify turns a name relative to package pkgPath into a fully qualified one.
// "ShipConnection" -> pkgPath.ShipConnection ; "api.X" -> <import path of api>.X (resolved through short-name table)
func (cs *Contracts) qualify(name, pkgPath string, short map[string]string) string {
	if i := strings.LastIndex(name, "."); i >= 0 {
		p, n := name[:i], name[i+1:]
		if strings.Contains(p, "/") {
			return name
		}
		if full, ok := short[p]; ok {
			return full + "." + n
		}
		return name
	}
	return pkgPath + "." + name
}

func parseClause(kind, rest, file string, line int) (*Clause, error) {
	c := &Clause{Kind: kind, File: file, Line: line}
	if m := reTags.FindStringSubmatch(rest); m != nil {
		for _, t := range strings.Split(m[1], ",") {
			t = strings.TrimSpace(t)
			if t != "" {
				c.Tags = append(c.Tags, t)
			}
		}
		rest = rest[len(m[0]):]
	}
	if m := reLabel.FindStringSubmatch(rest); m != nil && m[1] != "forall" && m[1] != "exists" {
		c.Label = m[1]
		rest = rest[len(m[0]):]
	}
	c.Src = rest
	e, err := parseSpec(rest)
	if err != nil {
		return nil, fmt.Errorf("%s:%d: %v", file, line, err)
	}
	c.E = e
	return c, nil
}

func splitTop(s string) []string {
	var out []string
	depth := 0
	cur := ""
	for _, r := range s {
		switch r {
		case '(', '[', '{':
			depth++
		case ')', ']', '}':
			depth--
		case ',':
			if depth == 0 {
				out = append(out, strings.TrimSpace(cur))
				cur = ""
				continue
			}
		}
		cur += string(r)
	}
	if strings.TrimSpace(cur) != "" {
		out = append(out, strings.TrimSpace(cur))
	}
	return out
}

// loadContractFile parses one contract file. short maps short package names to import paths.
func (cs *Contracts) loadContractFile(path, pkgPath string, short map[string]string) error {
	data, err := os.ReadFile(path)
	if err != nil {
		return err
	}
	cs.Files = append(cs.Files, path)
	var curF *FuncContract
	var curL *LoopContract
	var curT *TableDef
	lines := strings.Split(string(data), "\n")
	// join continuation lines: a line "//@+ ..." continues the previous one
	for ln := 0; ln < len(lines); ln++ {
		raw := strings.TrimSpace(lines[ln])
		if !strings.HasPrefix(raw, "//@") {
			continue
		}
		text := strings.TrimSpace(raw[3:])
		for ln+1 < len(lines) && strings.HasPrefix(strings.TrimSpace(lines[ln+1]), "//@+") {
			ln++
			text += " " + strings.TrimSpace(strings.TrimSpace(lines[ln])[4:])
		}
		if i := strings.Index(text, " //"); i >= 0 { // trailing comment
			text = strings.TrimSpace(text[:i])
		}
		if text == "" {
			continue
		}
		lineNo := ln + 1
		word := text
		rest := ""
		if i := strings.IndexAny(text, " \t"); i >= 0 {
			word, rest = text[:i], strings.TrimSpace(text[i+1:])
		}
		fail := func(f string, a ...interface{}) error {
			return fmt.Errorf("%s:%d: %s", path, lineNo, fmt.Sprintf(f, a...))
		}
		switch word {
		case "func", "iface", "lib", "closure", "functype":
			m := reFunc.FindStringSubmatch(text)
			if m == nil {
				return fail("cannot parse function header %q", text)
			}
			fc := &FuncContract{Kind: m[1], Recv: m[2], Pkg: pkgPath, File: path, Line: lineNo}
			name := m[5]
			if m[4] != "" { // method
				tq := cs.qualify(m[4], pkgPath, short)
				if m[3] == "*" {
					fc.Key = "(*" + tq + ")." + name
				} else {
					fc.Key = "(" + tq + ")." + name
				}
			} else if m[1] == "iface" {
				// api.Iface.Method
				i := strings.LastIndex(name, ".")
				if i < 0 {
					return fail("iface contract needs Iface.Method")
				}
				fc.Key = "iface:" + cs.qualify(name[:i], pkgPath, short) + "." + name[i+1:]
				fc.Recv = "this"
			} else if m[1] == "lib" {
				// library function: pkg.Func (package resolved through the imports of the contract's package)
				fc.Key = name
				if i := strings.LastIndex(name, "."); i >= 0 {
					if full, ok := short[name[:i]]; ok {
						fc.Key = full + name[i:]
					}
				}
			} else if m[1] == "functype" {
				fc.Key = "functype:" + cs.qualify(name, pkgPath, short)
			} else {
				fc.Key = cs.qualify(name, pkgPath, short)
			}
			if m[6] != "" {
				for _, p := range strings.Split(m[6], ",") {
					fc.Params = append(fc.Params, strings.TrimSpace(p))
				}
			}
			for _, fl := range strings.Fields(m[7]) {
				switch fl {
				case "inline":
					fc.Inline = true
				case "pure":
					fc.Pure = true
				case "entry":
					fc.Entry = true
				case "trusted":
					fc.Trusted = true
				case "noreturn":
					fc.NoReturn = true
				default:
					if strings.HasPrefix(fl, "[") {
						for _, t := range strings.Split(strings.Trim(fl, "[]"), ",") {
							fc.Tags = append(fc.Tags, t)
						}
					} else {
						return fail("unknown function flag %q", fl)
					}
				}
			}
			if old, dup := cs.Funcs[fc.Key]; dup {
				return fail("duplicate contract for %s (first at %s:%d)", fc.Key, old.File, old.Line)
			}
			cs.Funcs[fc.Key] = fc
			curF, curL, curT = fc, nil, nil
		case "libm": // lib method: libm (*sync.Mutex).Lock(m)
			return fail("libm unsupported")
		case "requires", "ensures", "decreases", "spawns":
			if curF == nil {
				return fail("%s outside a function contract", word)
			}
			rest = cs.expandModSets(rest)
			if word == "decreases" {
				// lexicographic measure: decreases e1, e2, ...
				for _, part := range splitTop(rest) {
					c, err := parseClause(word, part, path, lineNo)
					if err != nil {
						return err
					}
					if curL != nil {
						curL.Decr = append(curL.Decr, c)
					} else {
						curF.Decr = append(curF.Decr, c)
					}
				}
				continue
			}
			c, err := parseClause(word, rest, path, lineNo)
			if err != nil {
				return err
			}
			switch word {
			case "requires":
				curF.Requires = append(curF.Requires, c)
			case "ensures":
				curF.Ensures = append(curF.Ensures, c)
			case "decreases":
				if curL != nil {
					curL.Decr = append(curL.Decr, c)
				} else {
					curF.Decr = append(curF.Decr, c)
				}
			case "spawns":
				curF.Spawns = append(curF.Spawns, c)
			}
		case "invariant":
			if curL == nil {
				return fail("invariant outside a loop contract")
			}
			c, err := parseClause(word, cs.expandModSets(rest), path, lineNo)
			if err != nil {
				return err
			}
			curL.Invariants = append(curL.Invariants, c)
		case "bind":
			if curL == nil {
				return fail("bind outside a loop contract")
			}
			// bind i = index   (spec name = source-level variable or "rangeindex")
			parts := strings.Split(rest, "=")
			if len(parts) != 2 {
				return fail("bind x = var")
			}
			curL.Binds[strings.TrimSpace(parts[0])] = strings.TrimSpace(parts[1])
		case "modifies", "interference":
			if curF == nil {
				return fail("%s outside a function contract", word)
			}
			if word == "interference" {
				i := strings.Index(rest, ":")
				if i < 0 {
					return fail("interference x: list")
				}
				curF.InterfVar = strings.TrimSpace(rest[:i])
				rest = strings.TrimSpace(rest[i+1:])
			}
			rest = cs.expandModSets(rest)
			if word == "modifies" && strings.HasPrefix(rest, "* except ") {
				curF.ModAll = true
				for _, t := range splitTop(rest[len("* except "):]) {
					curF.ModExcept = append(curF.ModExcept, cs.qualify(t, pkgPath, short))
				}
				continue
			}
			for _, item := range splitTop(rest) {
				if item == "*" {
					curF.ModAll = true
					continue
				}
				me := &ModEntry{Src: item}
				add := func() {
					if word == "interference" {
						curF.Interf = append(curF.Interf, me)
					} else {
						curF.Modifies = append(curF.Modifies, me)
					}
				}
				if strings.HasPrefix(item, "class(") && strings.HasSuffix(item, ")") {
					// raw heap class, e.g. class("elems:net.IP"): all slice elements of that type
					me.Class = strings.Trim(item[6:len(item)-1], `"`)
					add()
					continue
				}
				e, err := parseSpec(item)
				if err != nil {
					return fail("%v", err)
				}
				switch x := e.(type) {
				case EField:
					// Either Type.field (whole class) or expr.field
					if id, ok := x.X.(EIdent); ok && (id.Name[0] >= 'A' && id.Name[0] <= 'Z' || short[id.Name] != "") && !contains(curF.Params, id.Name) && id.Name != curF.Recv {
						me.Class = cs.qualify(id.Name, pkgPath, short) + "." + x.Name
					} else if f2, ok := x.X.(EField); ok {
						if id, ok := f2.X.(EIdent); ok && short[id.Name] != "" {
							me.Class = short[id.Name] + "." + f2.Name + "." + x.Name
						} else {
							me.E, me.Field = x.X, x.Name
						}
					} else {
						me.E, me.Field = x.X, x.Name
					}
				case EIdent:
					me.Class = x.Name // ghost global
				case EIndex:
					me.E, me.Index = x.X, x.I
				default:
					return fail("bad %s entry %q", word, item)
				}
				add()
			}
		case "establishes":
			if curF == nil {
				return fail("establishes outside a function contract")
			}
			e, err := parseSpec(rest)
			if err != nil {
				return fail("%v", err)
			}
			curF.Establishes = append(curF.Establishes, e)
		case "holds":
			if curF == nil {
				return fail("holds outside a function contract")
			}
			for _, item := range splitTop(rest) {
				curF.Holds = append(curF.Holds, "p:"+item)
			}
		case "atcall":
			if curF == nil {
				return fail("atcall outside a function contract")
			}
			f := strings.SplitN(rest, " ", 2)
			if len(f) != 2 {
				return fail("atcall <callee> [tags] label: expr")
			}
			c, err := parseClause("atcall", cs.expandModSets(strings.TrimSpace(f[1])), path, lineNo)
			if err != nil {
				return err
			}
			if curF.AtCalls == nil {
				curF.AtCalls = map[string][]*Clause{}
			}
			curF.AtCalls[f[0]] = append(curF.AtCalls[f[0]], c)
		case "havocs":
			if curF == nil {
				return fail("havocs outside a function contract")
			}
			for _, item := range splitTop(rest) {
				curF.Havocs = append(curF.Havocs, item)
			}
		case "loop":
			// loop (c *T).f #k   or loop f #k
			i := strings.LastIndex(rest, "#")
			if i < 0 {
				return fail("loop needs #ordinal")
			}
			var ord int
			fmt.Sscanf(rest[i+1:], "%d", &ord)
			hdr := strings.TrimSpace(rest[:i])
			m := reFunc.FindStringSubmatch("func " + hdr)
			if m == nil {
				return fail("cannot parse loop header")
			}
			key := ""
			if m[4] != "" {
				tq := cs.qualify(m[4], pkgPath, short)
				if m[3] == "*" {
					key = "(*" + tq + ")." + m[5]
				} else {
					key = "(" + tq + ")." + m[5]
				}
			} else {
				key = cs.qualify(m[5], pkgPath, short)
			}
			lc := &LoopContract{FuncKey: key, Ordinal: ord, Pkg: pkgPath, Binds: map[string]string{}}
			cs.Loops[fmt.Sprintf("%s#%d", key, ord)] = lc
			curL, curT = lc, nil
		case "ghost":
			f := strings.Fields(rest)
			if len(f) < 3 {
				return fail("ghost field T.$x sort | ghost global $x sort")
			}
			g := &GhostDecl{Pkg: pkgPath}
			sortSrc := strings.Join(f[2:], " ")
			g.Sort = specSort(sortSrc)
			if g.Sort == "" {
				return fail("unknown ghost sort %q", sortSrc)
			}
			if f[0] == "global" {
				g.Global, g.Name = true, f[1]
			} else {
				i := strings.LastIndex(f[1], ".")
				g.Type, g.Name = cs.qualify(f[1][:i], pkgPath, short), f[1][i+1:]
			}
			cs.Ghosts = append(cs.Ghosts, g)
			curF, curL, curT = nil, nil, nil
		case "pred", "ufunc":
			// pred name(a sort, b sort) [ret] := expr     | ufunc name(sort, sort) ret
			i := strings.Index(rest, "(")
			j := strings.Index(rest, ")")
			if i < 0 || j < i {
				return fail("bad pred header")
			}
			pd := &PredDef{Name: strings.TrimSpace(rest[:i]), Ret: "Bool", Pkg: pkgPath, Src: rest}
			for _, p := range splitTop(rest[i+1 : j]) {
				f := strings.Fields(p)
				if word == "ufunc" {
					pd.Params = append(pd.Params, fmt.Sprintf("a%d", len(pd.Params)))
					pd.Sorts = append(pd.Sorts, specSort(strings.Join(f, " ")))
				} else {
					if len(f) < 2 {
						return fail("pred param needs a sort: %q", p)
					}
					pd.Params = append(pd.Params, f[0])
					pd.Sorts = append(pd.Sorts, specSort(strings.Join(f[1:], " ")))
				}
				if pd.Sorts[len(pd.Sorts)-1] == "" {
					return fail("unknown sort in %q", p)
				}
			}
			tail := strings.TrimSpace(rest[j+1:])
			if word == "ufunc" {
				pd.Uninterp = true
				pd.Ret = specSort(tail)
				if pd.Ret == "" {
					return fail("ufunc needs result sort")
				}
			} else {
				k := strings.Index(tail, ":=")
				if k < 0 {
					return fail("pred needs :=")
				}
				if rs := strings.TrimSpace(tail[:k]); rs != "" {
					pd.Ret = specSort(rs)
				}
				e, err := parseSpec(strings.TrimSpace(tail[k+2:]))
				if err != nil {
					return fail("%v", err)
				}
				pd.Body = e
			}
			cs.Preds[pd.Name] = pd
			curF, curL, curT = nil, nil, nil
		case "table":
			// table edge reflexive sink=model.SmeStateError roles=client,server
			f := strings.Fields(rest)
			td := &TableDef{Name: f[0], Pkg: pkgPath}
			for _, o := range f[1:] {
				switch {
				case o == "reflexive":
					td.Reflexive = true
				case strings.HasPrefix(o, "sink="):
					td.Sink = o[5:]
				case strings.HasPrefix(o, "roles="):
					td.RoleNames = strings.Split(o[6:], ",")
				}
			}
			cs.Tables[td.Name] = td
			curT, curF, curL = td, nil, nil
		case "row":
			if curT == nil {
				return fail("row outside table")
			}
			// row client: A>B C>D
			i := strings.Index(rest, ":")
			role := strings.TrimSpace(rest[:i])
			if role == "both" {
				role = ""
			}
			for _, ed := range strings.Fields(rest[i+1:]) {
				p := strings.Split(ed, ">")
				if len(p) != 2 {
					return fail("bad edge %q", ed)
				}
				curT.Rows = append(curT.Rows, tableRow{role, p[0], p[1]})
			}
		case "derive":
			// derive reach := closure(edge)
			f := strings.Fields(rest)
			if len(f) != 3 || f[1] != ":=" {
				return fail("derive name := kind(table)")
			}
			i := strings.Index(f[2], "(")
			cs.Derived[f[0]] = [2]string{f[2][:i], strings.Trim(f[2][i:], "()")}
		case "lemma":
			c, err := parseClause("lemma", rest, path, lineNo)
			if err != nil {
				return err
			}
			cs.Lemmas = append(cs.Lemmas, &LemmaDef{Name: c.Label, Tags: c.Tags, E: c.E, Src: c.Src, Pkg: pkgPath})
		case "axiom":
			c, err := parseClause("axiom", rest, path, lineNo)
			if err != nil {
				return err
			}
			cs.Axioms = append(cs.Axioms, &AxiomDef{Name: c.Label, E: c.E, Src: c.Src, Pkg: pkgPath})
		case "globalinv":
			c, err := parseClause("globalinv", cs.expandModSets(rest), path, lineNo)
			if err != nil {
				return err
			}
			cs.GlobalInvs[pkgPath] = append(cs.GlobalInvs[pkgPath], c)
		case "writers", "lockfree":
			wd := &WritersDecl{Src: rest, Pkg: pkgPath, LockFree: word == "lockfree"}
			r := rest
			if m := reTags.FindStringSubmatch(r); m != nil {
				for _, t := range strings.Split(m[1], ",") {
					wd.Tags = append(wd.Tags, strings.TrimSpace(t))
				}
				r = r[len(m[0]):]
			}
			i := strings.Index(r, " in ")
			if i < 0 {
				return fail("%s T.f in F1, F2", word)
			}
			f := strings.TrimSpace(r[:i])
			k := strings.LastIndex(f, ".")
			wd.Field = cs.qualify(f[:k], pkgPath, short) + f[k:]
			for _, fn := range splitTop(r[i+4:]) {
				wd.Funcs = append(wd.Funcs, fn)
			}
			cs.Writers = append(cs.Writers, wd)
		case "abstraction":
			// abstraction $Trusted[s] of (h *Hub) := expr
			m := regexp.MustCompile(`^(\$\w+)\[(\w+)\]\s+of\s+\((\w+)\s+\*?([\w./]+)\)\s*:=\s*(.*)$`).FindStringSubmatch(rest)
			if m == nil {
				return fail("abstraction $G[k] of (x *T) := expr")
			}
			body := cs.expandModSets(m[5])
			var hv []*ModEntry
			if i := strings.Index(body, " havocs "); i >= 0 {
				for _, item := range splitTop(body[i+8:]) {
					he, err := parseSpec(item)
					if err != nil {
						return fail("%v", err)
					}
					me := &ModEntry{Src: item}
					switch x := he.(type) {
					case EField:
						me.E, me.Field = x.X, x.Name
					case EIndex:
						me.E, me.Index = x.X, x.I
					default:
						return fail("bad havocs entry %q", item)
					}
					hv = append(hv, me)
				}
				body = body[:i]
			}
			e, err := parseSpec(body)
			if err != nil {
				return fail("%v", err)
			}
			cs.Abstractions[m[1]] = &Abstraction{Name: m[1], Key: m[2], Var: m[3], Type: cs.qualify(m[4], pkgPath, short), E: e, Src: m[5], Pkg: pkgPath, Havocs: hv}
		case "ghostdef":
			m := regexp.MustCompile(`^\((\w+)\s+\*?([\w./]+)\)\.(\$\w+)\s*:=\s*(.*)$`).FindStringSubmatch(rest)
			if m == nil {
				return fail("ghostdef (x *T).$g := expr")
			}
			e, err := parseSpec(cs.expandModSets(m[4]))
			if err != nil {
				return fail("%v", err)
			}
			if cs.GhostDefs == nil {
				cs.GhostDefs = map[string]*GhostDef{}
			}
			t := cs.qualify(m[2], pkgPath, short)
			cs.GhostDefs[t+"."+m[3]] = &GhostDef{Var: m[1], Type: t, Name: m[3], E: e, Src: rest, Pkg: pkgPath}
		case "implements":
			if curF == nil {
				return fail("implements outside a function contract")
			}
			i := strings.LastIndex(rest, ".")
			curF.Implements = "iface:" + cs.qualify(rest[:i], pkgPath, short) + rest[i:]
		case "modset", "macro":
			// modset hs(c) := c.a, c.b, ...
			m := regexp.MustCompile(`^(\w+)\(([\w, ]*)\)\s*:=\s*(.*)$`).FindStringSubmatch(rest)
			if m == nil {
				return fail("modset name(x) := list")
			}
			cs.ModSets[m[1]] = [2]string{m[2], m[3]}
			if word == "macro" {
				cs.ModSets[m[1]] = [2]string{m[2], "(" + m[3] + ")"}
			}
		case "objinv":
			m := regexp.MustCompile(`^\((\w+)\s+\*?([\w./]+)\)\s+(.*)$`).FindStringSubmatch(rest)
			if m == nil {
				return fail("objinv (x *T) [tags] label: expr")
			}
			c, err := parseClause("objinv", cs.expandModSets(m[3]), path, lineNo)
			if err != nil {
				return err
			}
			tq := cs.qualify(m[2], pkgPath, short)
			cs.ObjInvs[tq] = append(cs.ObjInvs[tq], &TypeInv{Type: tq, Var: m[1], E: c.E, Src: c.Src, Pkg: pkgPath, Tags: c.Tags, Label: c.Label})
		case "typeinv":
			// typeinv (c *ShipConnection) expr
			m := regexp.MustCompile(`^\((\w+)\s+\*?([\w./]+)\)\s+(.*)$`).FindStringSubmatch(rest)
			if m == nil {
				return fail("typeinv (x *T) expr")
			}
			e, err := parseSpec(m[3])
			if err != nil {
				return fail("%v", err)
			}
			tq := cs.qualify(m[2], pkgPath, short)
			cs.TypeInvs[tq] = &TypeInv{Type: tq, Var: m[1], E: e, Src: m[3], Pkg: pkgPath}
		case "guardedcall":
			// guardedcall (*websocket.Conn).WriteMessage, ... by WebsocketConnection.muxConWrite
			gd := &GuardDecl{Kind: "guardedcall", Pkg: pkgPath}
			i := strings.Index(rest, " by ")
			if i < 0 {
				return fail("guardedcall F1, F2 by T.m")
			}
			by := strings.TrimSpace(rest[i+4:])
			k := strings.LastIndex(by, ".")
			gd.By = cs.qualify(by[:k], pkgPath, short) + "." + by[k+1:]
			for _, f := range splitTop(rest[:i]) {
				// (*pkg.T).M with the package short name resolved
				m := regexp.MustCompile(`^\(\*?([\w./]+)\)\.(\w+)$`).FindStringSubmatch(f)
				if m == nil {
					return fail("guardedcall entries must be methods: %q", f)
				}
				star := ""
				if strings.HasPrefix(f, "(*") {
					star = "*"
				}
				gd.Fields = append(gd.Fields, "("+star+cs.qualify(m[1], pkgPath, short)+")."+m[2])
			}
			cs.Guards = append(cs.Guards, gd)
		case "immutable", "guarded", "initonly", "noclaim", "neverclosed", "closeonly", "chanlog", "fieldcover":
			gd := &GuardDecl{Kind: word, Pkg: pkgPath}
			body := rest
			if i := strings.Index(body, " because "); i >= 0 {
				gd.Why = strings.TrimSpace(body[i+9:])
				body = body[:i]
			}
			if word == "fieldcover" {
				// fieldcover T1, T2: every field of these structs must be classified (guarded / immutable / initonly / noclaim) or be a sync primitive
				for _, tn := range splitTop(body) {
					gd.Fields = append(gd.Fields, cs.qualify(strings.TrimSpace(tn), pkgPath, short))
				}
				cs.Guards = append(cs.Guards, gd)
				break
			}
			if i := strings.Index(body, " by "); i >= 0 {
				by := strings.TrimSpace(body[i+4:])
				if strings.HasPrefix(by, "owner ") {
					gd.Owner = true
					by = strings.TrimSpace(by[6:])
				}
				k := strings.LastIndex(by, ".")
				gd.By = cs.qualify(by[:k], pkgPath, short) + "." + by[k+1:]
				body = body[:i]
			}
			if i := strings.Index(body, " in "); i >= 0 {
				for _, fn := range splitTop(body[i+4:]) {
					gd.In = append(gd.In, fn)
				}
				body = body[:i]
			}
			for _, f := range splitTop(body) {
				k := strings.LastIndex(f, ".")
				if k < 0 {
					return fail("field must be T.f: %q", f)
				}
				q := cs.qualify(f[:k], pkgPath, short) + "." + f[k+1:]
				gd.Fields = append(gd.Fields, q)
				if word == "immutable" {
					cs.Immutable[q] = true
				}
			}
			cs.Guards = append(cs.Guards, gd)
		case "const":
			// const name = expr (spec-level constant, textual)
			parts := strings.SplitN(rest, "=", 2)
			cs.Consts[strings.TrimSpace(parts[0])] = strings.TrimSpace(parts[1])
		default:
			return fail("unknown directive %q", word)
		}
	}
	return nil
}

func contains(xs []string, x string) bool {
	for _, y := range xs {
		if y == x {
			return true
		}
	}
	return false
}

// specSort maps a spec-level sort name to an SMT sort.
func specSort(s string) string {
	s = strings.TrimSpace(s)
	switch s {
	case "int", "uint", "ref", "state":
		return "Int"
	case "bool":
		return "Bool"
	case "string":
		return "String"
	case "iface":
		return "Iface"
	case "slice":
		return "Slice"
	}
	if strings.HasPrefix(s, "map[") {
		depth := 0
		for i := 4; i < len(s); i++ {
			if s[i] == '[' {
				depth++
			}
			if s[i] == ']' {
				if depth == 0 {
					k := specSort(s[4:i])
					v := specSort(s[i+1:])
					if k == "" || v == "" {
						return ""
					}
					return "(Array " + k + " " + v + ")"
				}
				depth--
			}
		}
	}
	return ""
}

func findContractFiles(repo string) ([]string, error) {
	var out []string
	err := filepath.Walk(repo, func(p string, info os.FileInfo, err error) error {
		if err != nil {
			return nil
		}
		if info.IsDir() && (info.Name() == ".git" || info.Name() == "mocks") {
			return filepath.SkipDir
		}
		if !info.IsDir() && info.Name() == "verif_contracts.go" {
			out = append(out, p)
		}
		return nil
	})
	sort.Strings(out)
	return out, err
}

// expandModSets replaces @name(arg) by the macro's list with the parameter substituted.
func (cs *Contracts) expandModSets(s string) string {
	for i := 0; i < 5; i++ {
		n := cs.expandModSets1(s)
		if n == s {
			break
		}
		s = n
	}
	return s
}

func (cs *Contracts) expandModSets1(s string) string {
	var out strings.Builder
	for i := 0; i < len(s); {
		if s[i] != '@' {
			out.WriteByte(s[i])
			i++
			continue
		}
		// @name(args) with balanced parentheses in args
		j := i + 1
		for j < len(s) && (s[j] == '_' || s[j] >= 'a' && s[j] <= 'z' || s[j] >= 'A' && s[j] <= 'Z' || s[j] >= '0' && s[j] <= '9') {
			j++
		}
		name := s[i+1 : j]
		ms, ok := cs.ModSets[name]
		if !ok || j >= len(s) || s[j] != '(' {
			out.WriteByte(s[i])
			i++
			continue
		}
		depth, k := 0, j
		for ; k < len(s); k++ {
			if s[k] == '(' {
				depth++
			} else if s[k] == ')' {
				depth--
				if depth == 0 {
					break
				}
			}
		}
		if k >= len(s) {
			out.WriteByte(s[i])
			i++
			continue
		}
		argText := s[j+1 : k]
		if strings.Contains(argText, "@") {
			argText = cs.expandModSets1(argText) // innermost first
		}
		body := ms[1]
		if ms[0] != "" {
			params := strings.Split(ms[0], ",")
			args := splitTop(argText)
			if len(params) != len(args) {
				out.WriteString(s[i : k+1])
				i = k + 1
				continue
			}
			for pi, pn := range params {
				pr := regexp.MustCompile(`\b` + regexp.QuoteMeta(strings.TrimSpace(pn)) + `\b`)
				body = pr.ReplaceAllString(body, fmt.Sprintf("\x00%d\x00", pi))
			}
			for ai, a := range args {
				body = strings.ReplaceAll(body, fmt.Sprintf("\x00%d\x00", ai), strings.TrimSpace(a))
			}
		}
		out.WriteString(body)
		i = k + 1
	}
	return out.String()
}
