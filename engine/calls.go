package main

import (
	"fmt"
	"go/token"
	"go/types"
	"strings"

	"golang.org/x/tools/go/ssa"
)

func (x *Exec) doCall(st *State, fr *Frame, in ssa.Instruction, c *ssa.CallCommon, k func(*State, Val)) {
	var argv []Val
	for _, a := range c.Args {
		argv = append(argv, x.val(st, fr, a))
	}
	var fv Val
	if _, isClo := c.Value.(*ssa.MakeClosure); c.IsInvoke() || c.StaticCallee() == nil || isClo {
		fv = x.val(st, fr, c.Value)
	}
	x.doCallVals(st, fr, c, fv, argv, in.Pos(), k)
}

func resultType(c *ssa.CallCommon) types.Type {
	sig := c.Signature()
	switch sig.Results().Len() {
	case 0:
		return types.NewTuple()
	case 1:
		return sig.Results().At(0).Type()
	}
	return sig.Results()
}

func voidVal() Val { return Val{T: types.NewTuple()} }

func (x *Exec) doCallVals(st *State, fr *Frame, c *ssa.CallCommon, fv Val, argv []Val, pos token.Pos, k func(*State, Val)) {
	rt := resultType(c)
	if st.called == nil {
		st.called = map[string]bool{}
	}
	st.called[calleeName(c)] = true
	if st.ncalls == nil {
		st.ncalls = map[string]int{}
	}
	st.ncalls[calleeName(c)]++
	{
		cn, k0 := calleeName(c), k
		k = func(st *State, r Val) {
			if st.lastRet == nil {
				st.lastRet = map[string]Val{}
			}
			st.lastRet[cn] = r
			k0(st, r)
		}
	}
	if x.fc != nil && x.fc.AtCalls != nil {
		name := calleeName(c)
		for i, ac := range x.fc.AtCalls[name] {
			vars := map[string]Val{}
			for k, v := range x.entryEnv {
				vars[k] = v
			}
			for j, a := range argv {
				vars[fmt.Sprintf("$%d", j)] = a // $0, $1, ...: the arguments of the call
			}
			vars["$go"] = Val{S: "false", Sort: "Bool"} // an ordinary call, not a `go` statement
			if c.IsInvoke() {
				vars["$recv"] = fv
			}
			env := &specEnv{w: x.w, pkg: x.fc.Pkg, vars: vars, st: st, heap: st.heap, old: x.oldOf(st)}
			g, err := env.evalBool(ac.E)
			if err != nil {
				x.reject("contract of %s: atcall %s %q: %v", x.fc.Key, name, ac.Src, err)
			}
			label := ac.Label
			if label == "" {
				label = fmt.Sprintf("atcall%d", i)
			}
			x.atcallUsed[name] = true
			x.oblige(st, "atcall", x.site(name, pos), label, ac.Tags, g, pos, ac.Src)
		}
	}
	if c.IsInvoke() {
		x.oblige(st, "safety:nil", x.site("invoke", pos), c.Method.Name(), x.safetyTags, sNot(sEq("(itag "+fv.S+")", "0")), pos, "method call on nil interface")
		it := namedKey(c.Value.Type())
		key := "iface:" + it + "." + c.Method.Name()
		// logging interface: no effect
		if it == modPath+"/logging.LoggingInterface" {
			k(st, voidVal())
			return
		}
		if fc, ok := x.w.cs.Funcs[key]; ok {
			x.applyContract(st, fc, append([]Val{fv}, argv...), rt, pos, shortKey(it)+"."+c.Method.Name(), k)
			return
		}
		if it == "error" && c.Method.Name() == "Error" {
			x.w.declUF("errtext", "(declare-fun errtext (Iface) String)")
			k(st, Val{T: rt, S: "(errtext " + fv.S + ")", Sort: "String"})
			return
		}
		x.reject("invoke of %s without iface contract (%s)", key, x.pos(pos))
	}
	callee := c.StaticCallee()
	if fv.Clo != nil {
		callee = nil
	}
	if callee == nil {
		if fv.BI != "" {
			k(st, x.doBuiltin(st, fv.BI, argv, c, rt, pos))
			return
		}
		if fv.Clo != nil {
			x.runInline(st, fv.Clo.Fn, argv, fv.Clo.Binds, fr.depth+1, k)
			return
		}
		if fv.Fn != nil {
			callee = fv.Fn
		} else {
			if fc, ok := x.w.cs.Funcs["functype:"+namedKey(c.Value.Type())]; ok {
				x.oblige(st, "safety:nil", x.site("callfn", pos), "", x.safetyTags, sNot(sEq(fv.S, "0")), pos, "call of nil function value")
				x.applyContract(st, fc, argv, rt, pos, shortKey(namedKey(c.Value.Type())), k)
				return
			}
			x.reject("call through unknown function value of type %s at %s", c.Value.Type(), x.pos(pos))
		}
	}
	if callee.Signature.Recv() != nil && len(argv) > 0 {
		// pointer receiver of a static method: the callee assumes a non-nil receiver
		if _, isPtr := callee.Signature.Recv().Type().Underlying().(*types.Pointer); isPtr && argv[0].S != "" && argv[0].A == nil {
			if !isLibNilSafe(callee) {
				x.oblige(st, "safety:nil", x.site("call", pos), callee.Name(), x.safetyTags, sNot(sEq(argv[0].S, "0")), pos, "method call on nil pointer receiver")
			}
		}
	}
	key := funcKey(callee)
	if callee.Origin() != nil {
		key = funcKey(callee.Origin())
	}
	if x.native(st, fr, callee, key, argv, rt, pos, k) {
		return
	}
	fc, ok := x.w.cs.Funcs[funcKey(callee)]
	if !ok {
		fc, ok = x.w.cs.Funcs[key] // generic instantiation: contract of the origin
	}
	if ok {
		fc.Used = true
		if fc.Inline {
			x.inlined[shortKey(key)] = true
			x.runInline(st, callee, argv, nil, fr.depth+1, k)
			return
		}
		x.applyContract(st, fc, argv, rt, pos, callee.Name(), k)
		return
	}
	// in-module helper without contract: inline (exact), bounded depth, no recursion
	cpkg := callee.Pkg
	if cpkg == nil && callee.Origin() != nil {
		cpkg = callee.Origin().Pkg
	}
	if cpkg != nil && strings.HasPrefix(cpkg.Pkg.Path(), modPath) && callee.Blocks != nil {
		if x.autoInlineOK(callee) {
			x.inlined[shortKey(key)] = true
			x.runInline(st, callee, argv, nil, fr.depth+1, k)
			return
		}
	}
	x.reject("unmodelled call to %s at %s", key, x.pos(pos))
}

func isLibNilSafe(fn *ssa.Function) bool { return false }

func (x *Exec) autoInlineOK(fn *ssa.Function) bool {
	n := 0
	loops := 0
	for _, b := range fn.Blocks {
		n += len(b.Instrs)
		if isLoopHeader(b) {
			// a helper with a loop is inlined too: its loop is cut at the header like any other (invariant from a
			// `loop` contract keyed by the helper's name, else `true` with everything the body writes havoc'd)
			loops++
		}
	}
	if n > 80 || loops > 2 {
		return false
	}
	// no (direct) recursion
	for _, b := range fn.Blocks {
		for _, in := range b.Instrs {
			if c, ok := in.(ssa.CallInstruction); ok {
				if c.Common().StaticCallee() == fn {
					return false
				}
			}
		}
	}
	return true
}

func (x *Exec) runInline(st *State, fn *ssa.Function, args []Val, free []Val, depth int, k func(*State, Val)) {
	x.runFunc(st, fn, args, free, depth, false, func(st *State, rs []Val) {
		switch len(rs) {
		case 0:
			k(st, voidVal())
		case 1:
			k(st, rs[0])
		default:
			k(st, Val{T: fn.Signature.Results(), Fs: rs})
		}
	})
}

// ---- contract application at a call site ----

func (x *Exec) bindParams(fc *FuncContract, callee *ssa.Function, args []Val) map[string]Val {
	vars := map[string]Val{}
	i := 0
	if fc.Recv != "" {
		if len(args) > 0 {
			vars[fc.Recv] = args[0]
			i = 1
		}
	}
	for j, p := range fc.Params {
		if i+j < len(args) {
			vars[p] = args[i+j]
		}
	}
	return vars
}

func (x *Exec) applyContract(st *State, fc *FuncContract, args []Val, rt types.Type, pos token.Pos, calleeName string, k func(*State, Val)) {
	fc.Used = true
	x.usedKeys[fc.Key] = true
	if fc.Trusted {
		x.trustedUsed[shortKey(fc.Key)] = true
	}
	vars := x.bindParams(fc, nil, args)
	site := x.site(calleeName, pos)
	env := &specEnv{w: x.w, pkg: fc.Pkg, vars: vars, st: st, heap: st.heap}
	for i, rc := range fc.Requires {
		g, err := env.evalBool(rc.E)
		if err != nil {
			x.reject("contract of %s: requires %q: %v", fc.Key, rc.Src, err)
		}
		label := rc.Label
		if label == "" {
			label = fmt.Sprintf("requires%d", i)
		}
		x.oblige(st, "pre", site, label, rc.Tags, g, pos, rc.Src)
	}
	// termination: a call between functions that both carry a `decreases` measure must decrease it
	if x.fc != nil && len(x.fc.Decr) > 0 && len(fc.Decr) > 0 {
		callerEnv := &specEnv{w: x.w, pkg: x.fc.Pkg, vars: x.entryEnv, st: st, heap: x.initHeap}
		var cm, dm []string
		for _, d := range x.fc.Decr {
			v, err := callerEnv.evalSafe(d.E)
			if err != nil || v.Sort != "Int" {
				x.reject("contract of %s: decreases %q: %v", x.fc.Key, d.Src, err)
			}
			cm = append(cm, v.S)
		}
		for _, d := range fc.Decr {
			v, err := env.evalSafe(d.E)
			if err != nil || v.Sort != "Int" {
				x.reject("contract of %s: decreases %q: %v", fc.Key, d.Src, err)
			}
			dm = append(dm, v.S)
		}
		n := len(cm)
		if len(dm) < n {
			n = len(dm)
		}
		lt := "false"
		for i := n - 1; i >= 0; i-- {
			lt = sOr("(< "+dm[i]+" "+cm[i]+")", sAnd(sEq(dm[i], cm[i]), lt))
		}
		var nonneg []string
		for _, m := range dm {
			nonneg = append(nonneg, "(>= "+m+" 0)")
		}
		x.oblige(st, "decreases", site, "", []string{"C08"}, sAnd(append(nonneg, lt)...), pos, "termination measure decreases (lexicographic): "+fc.Decr[0].Src+", ...")
	}
	if fc.NoReturn {
		return
	}
	old := st.snapshot()
	x.havocMods(st, fc, env, old)
	// result
	var res Val
	switch t := rt.(type) {
	case *types.Tuple:
		if t.Len() == 0 {
			res = voidVal()
		} else {
			res = st.freshVal("ret_"+calleeName, t)
		}
	default:
		res = st.freshVal("ret_"+calleeName, rt)
	}
	if x.pendingObjInv {
		x.pendingObjInv = false
		for _, oi := range x.w.cs.ObjInvs[strings.TrimPrefix(x.absType, "*")] {
			oenv := &specEnv{w: x.w, pkg: oi.Pkg, vars: map[string]Val{oi.Var: *x.absRecv}, st: st, heap: st.heap}
			if g, err := oenv.evalBool(oi.E); err == nil {
				st.assume(g)
			}
		}
	}
	env2 := &specEnv{w: x.w, pkg: fc.Pkg, vars: vars, st: st, heap: st.heap, old: old}
	if len(res.Fs) > 0 && res.S == "" {
		if _, isT := rt.(*types.Tuple); isT {
			env2.result = res.Fs
		} else {
			env2.result = []Val{res}
		}
	} else if res.S != "" || res.BI == "array" {
		env2.result = []Val{res}
	}
	for i, ec := range fc.Ensures {
		label := ec.Label
		if label == "" {
			label = fmt.Sprintf("ensures%d", i)
		}
		if x.w.isKnownFinding(strings.ReplaceAll(fc.Key, modPath+"/", "")+"#post."+label, "") {
			continue // recorded as an open finding: not assumed
		}
		if usesPathBuiltin(ec.Src) {
			// called()/callcount()/lastresult()/lasterr()/spawncount() speak about the callee's own path: such a clause
			// is proved for the callee's body and means nothing in the caller's path state - it is not assumed here
			continue
		}
		env2.heap = st.heap
		g, err := env2.evalBool(ec.E)
		if err != nil {
			x.reject("contract of %s: ensures %q: %v", fc.Key, ec.Src, err)
		}
		st.assume(g)
	}
	k(st, res)
}

func usesPathBuiltin(src string) bool {
	for _, b := range []string{"called(", "callcount(", "lastresult(", "lasterr(", "spawncount("} {
		if strings.Contains(src, b) {
			return true
		}
	}
	return false
}

// havocMods forgets what the callee may modify.
func (x *Exec) havocMods(st *State, fc *FuncContract, env *specEnv, old map[string]string) {
	if fc.Pure {
		return
	}
	st.growAlloc()
	if fc.ModAll {
		st.havocAllExcept(fc.ModExcept)
		return
	}
	for _, m := range fc.Modifies {
		x.havocEntry(st, fc, m, env)
	}
	for _, h := range fc.Havocs {
		v, ok := env.vars[h]
		if !ok {
			x.reject("contract of %s: havocs unknown parameter %s", fc.Key, h)
		}
		_ = x.havocDeep(st, v)
	}
}

func (x *Exec) classOfEntry(st *State, fc *FuncContract, m *ModEntry, env *specEnv) (class string, ref string, idx string) {
	w := x.w
	if m.Class != "" {
		c := m.Class
		if strings.HasPrefix(c, "$") {
			return "gg:" + c, "", ""
		}
		if strings.HasPrefix(c, "elems:") || strings.HasPrefix(c, "mem:") || strings.HasPrefix(c, "mapP:") || strings.HasPrefix(c, "mapV:") {
			return canonString(c), "", ""
		}
		// Type.field
		i := strings.LastIndex(c, ".")
		f := c[i+1:]
		if strings.HasPrefix(f, "$") {
			return "ghost:" + f, "", ""
		}
		if _, ok := w.classes[c]; !ok {
			// make sure the class exists (resolve through the type)
			tn := c[:i]
			j := strings.LastIndex(tn, ".")
			if tp := w.tpkgs[tn[:j]]; tp != nil {
				if o := tp.Scope().Lookup(tn[j+1:]); o != nil {
					if s, ok := o.Type().Underlying().(*types.Struct); ok {
						for fi := 0; fi < s.NumFields(); fi++ {
							if s.Field(fi).Name() == f {
								a := st.fieldAddr(&Addr{Kind: "obj", Ref: "0", Elem: o.Type()}, fi)
								if a.Kind != "fld" {
									x.reject("contract of %s: modifies of embedded struct field %s", fc.Key, c)
								}
								return a.Class, "", ""
							}
						}
					}
				}
			}
			x.reject("contract of %s: unknown class %s in modifies", fc.Key, c)
		}
		return c, "", ""
	}
	if m.Index != nil {
		base, err := env.evalSafe(m.E)
		if err != nil {
			x.reject("contract of %s: modifies %s: %v", fc.Key, m.Src, err)
		}
		iv, err := env.evalSafe(m.Index)
		if err != nil {
			x.reject("contract of %s: modifies %s: %v", fc.Key, m.Src, err)
		}
		if id, ok := m.E.(EIdent); ok && strings.HasPrefix(id.Name, "$") {
			return "gg:" + id.Name, "", iv.S
		}
		if base.T != nil {
			if mt, ok := base.T.Underlying().(*types.Map); ok {
				pc, _ := st.mapClasses(mt)
				return pc, base.S, iv.S // caller handles the value class as well
			}
		}
		x.reject("contract of %s: unsupported indexed modifies %s", fc.Key, m.Src)
	}
	base, err := env.evalSafe(m.E)
	if err != nil {
		x.reject("contract of %s: modifies %s: %v", fc.Key, m.Src, err)
	}
	if strings.HasPrefix(m.Field, "$") {
		r, ok := refTerm(base)
		if !ok {
			x.reject("contract of %s: modifies %s: not a reference", fc.Key, m.Src)
		}
		return "ghost:" + m.Field, r, ""
	}
	var a *Addr
	if base.A != nil && base.A.Kind == "obj" {
		a = base.A
	} else if base.T != nil {
		if p, ok := base.T.Underlying().(*types.Pointer); ok {
			if _, ok := p.Elem().Underlying().(*types.Struct); ok {
				a = &Addr{Kind: "obj", Ref: base.S, Elem: p.Elem()}
			}
		}
	}
	if a == nil {
		x.reject("contract of %s: modifies %s: base is not a struct pointer", fc.Key, m.Src)
	}
	s := a.Elem.Underlying().(*types.Struct)
	for i := 0; i < s.NumFields(); i++ {
		if s.Field(i).Name() == m.Field {
			fa := st.fieldAddr(a, i)
			if fa.Kind != "fld" {
				x.reject("contract of %s: modifies of embedded struct field %s", fc.Key, m.Src)
			}
			return fa.Class, fa.Ref, ""
		}
	}
	x.reject("contract of %s: modifies %s: no such field", fc.Key, m.Src)
	return
}

func (x *Exec) havocEntry(st *State, fc *FuncContract, m *ModEntry, env *specEnv) {
	class, ref, idx := x.classOfEntry(st, fc, m, env)
	if strings.HasPrefix(class, "gg:") && x.absRecv != nil {
		if ab, ok := x.w.cs.Abstractions[class[3:]]; ok && ab.Type == x.absType {
			// defined by the abstraction over the receiver's state: havoc the concrete locations it stands for
			if idx == "" {
				st.havocAll()
				return
			}
			sub := &specEnv{w: x.w, pkg: ab.Pkg, vars: map[string]Val{ab.Var: *x.absRecv, ab.Key: {S: idx, Sort: keySortOfArray(x.w.classes[class])}}, st: st, heap: st.heap}
			afc := &FuncContract{Key: "abstraction " + ab.Name, Pkg: ab.Pkg}
			for _, hm := range ab.Havocs {
				c2, r2, i2 := x.classOfEntry(st, afc, hm, sub)
				x.havocAt(st, c2, r2, i2)
			}
			// the callee reaches these locations only through entry methods of the receiver, which
			// preserve its object invariants
			x.pendingObjInv = true
			return
		}
	}
	x.havocAt(st, class, ref, idx)
}

func (x *Exec) havocAt(st *State, class, ref, idx string) {
	if _, ok := x.w.classes[class]; !ok {
		return // class never materialised in this run: nothing known about it that could be lost
	}
	srt := x.w.classes[class]
	switch {
	case ref == "" && idx == "":
		st.havocClass(class)
	case strings.HasPrefix(class, "mapP:"):
		vc := "mapV:" + class[5:]
		for _, c := range []string{class, vc} {
			es := elemSortOfArray(elemSortOfArray(x.w.classes[c]))
			f := st.fresh("hv", es)
			h := st.hget(c)
			st.hset(c, "(store "+h+" "+ref+" (store (select "+h+" "+ref+") "+idx+" "+f+"))")
		}
	case ref == "" && idx != "":
		f := st.fresh("hv", elemSortOfArray(srt))
		st.hset(class, "(store "+st.hget(class)+" "+idx+" "+f+")")
	default:
		f := st.fresh("hv", elemSortOfArray(srt))
		st.hset(class, "(store "+st.hget(class)+" "+ref+" "+f+")")
	}
}

// havocDeep forgets the contents of the object a pointer (possibly wrapped in an interface) points to.
// It returns the reference of the object that was havoc'd ("" if none).
func (x *Exec) havocDeep(st *State, v Val) string {
	if v.Sort == "Iface" {
		c, ok := st.conc[v.S]
		if !ok {
			x.reject("havoc of interface value with unknown dynamic type")
		}
		v = c
	}
	if v.T == nil {
		x.reject("havoc of untyped value")
	}
	p, ok := v.T.Underlying().(*types.Pointer)
	if !ok {
		x.reject("havoc of non-pointer %s", v.T)
	}
	a := st.addrOfPtr(v)
	if _, isIface := p.Elem().Underlying().(*types.Interface); isIface {
		// pointer to an interface cell (json.Unmarshal(data, &target) with target any): the decoder
		// follows a non-nil pointer stored in the interface
		cur := st.load(a, p.Elem())
		if c, ok := st.conc[cur.S]; ok {
			if _, isPtr := c.T.Underlying().(*types.Pointer); isPtr {
				return x.havocDeep(st, c)
			}
		}
		x.reject("havoc through interface cell with unknown content")
	}
	nv := st.freshVal("hv", p.Elem())
	st.storeAt(a, nv, p.Elem())
	if a.Kind == "obj" || a.Kind == "mem" {
		return a.Ref
	}
	return ""
}

// ---- goroutines ----

func (x *Exec) doGo(st *State, fr *Frame, in *ssa.Go) {
	c := in.Common()
	var callee *ssa.Function
	if !c.IsInvoke() {
		callee = c.StaticCallee()
		if callee == nil {
			fv := x.val(st, fr, c.Value)
			if fv.Clo != nil {
				callee = fv.Clo.Fn
			}
		}
	}
	name := "?"
	if callee != nil {
		name = shortKey(funcKey(callee))
	} else if c.IsInvoke() {
		name = "invoke " + c.Method.Name()
	}
	st.spawned = append(st.spawned, name)
	// `atcall` clauses of the enclosing function also apply to calls started with `go`
	if x.fc != nil && x.fc.AtCalls != nil {
		cn := calleeName(c)
		var argv []Val
		for _, a := range c.Args {
			argv = append(argv, x.val(st, fr, a))
		}
		for i, ac := range x.fc.AtCalls[cn] {
			vars := map[string]Val{}
			for k, v := range x.entryEnv {
				vars[k] = v
			}
			for j, a := range argv {
				vars[fmt.Sprintf("$%d", j)] = a
			}
			vars["$go"] = Val{S: "true", Sort: "Bool"} // the callee is started on a goroutine of its own
			if c.IsInvoke() {
				vars["$recv"] = x.val(st, fr, c.Value)
			} else if fv := x.val(st, fr, c.Value); fv.Clo != nil && callee != nil {
				// go func() {...}(): the variables the closure captured are visible as $cap_<name> (their contents now)
				for i, f := range callee.FreeVars {
					if i >= len(fv.Clo.Binds) {
						break
					}
					if pt, ok := f.Type().Underlying().(*types.Pointer); ok && sortOf(pt.Elem()) != "" {
						vars["$cap_"+f.Name()] = st.load(st.addrOfPtr(fv.Clo.Binds[i]), pt.Elem())
					} else {
						vars["$cap_"+f.Name()] = fv.Clo.Binds[i]
					}
				}
			}
			env := &specEnv{w: x.w, pkg: x.fc.Pkg, vars: vars, st: st, heap: st.heap, old: x.oldOf(st)}
			g, err := env.evalBool(ac.E)
			if err != nil {
				x.reject("contract of %s: atcall %s %q: %v", x.fc.Key, cn, ac.Src, err)
			}
			label := ac.Label
			if label == "" {
				label = fmt.Sprintf("atcall%d", i)
			}
			x.atcallUsed[cn] = true
			x.oblige(st, "atcall", x.site(cn, in.Pos()), label, ac.Tags, g, in.Pos(), ac.Src)
		}
	}
	// the body of a goroutine is verified as a function of its own, against its own contract: a `go` statement
	// whose callee carries no contract starts code nobody verifies, and its effects are missing from this path
	contracted := false
	if callee != nil {
		_, contracted = x.w.cs.Funcs[funcKey(callee)]
		if !contracted && callee.Origin() != nil {
			_, contracted = x.w.cs.Funcs[funcKey(callee.Origin())]
		}
	} else if c.IsInvoke() {
		_, contracted = x.w.cs.Funcs["iface:"+namedKey(c.Value.Type())+"."+c.Method.Name()]
	}
	if !contracted && x.fc != nil {
		x.oblige(st, "spawn", x.site("go", in.Pos()), "contracted", x.fc.Tags, "false", in.Pos(), "go "+name+": the goroutine body has no contract (its effects are neither verified nor part of this function's post-state)")
	}
	if callee != nil {
		if fc, ok := x.w.cs.Funcs[funcKey(callee)]; ok {
			x.usedKeys[fc.Key] = true
		}
		if fc, ok := x.w.cs.Funcs[funcKey(callee)]; ok && len(fc.Spawns) > 0 {
			var argv []Val
			for _, a := range c.Args {
				argv = append(argv, x.val(st, fr, a))
			}
			vars := x.bindParams(fc, callee, argv)
			// free variables of closures are visible by name
			if fv := x.val(st, fr, c.Value); fv.Clo != nil {
				for i, f := range callee.FreeVars {
					vars[f.Name()] = fv.Clo.Binds[i]
					if pt, ok := f.Type().Underlying().(*types.Pointer); ok && sortOf(pt.Elem()) != "" {
						vars[f.Name()] = st.load(st.addrOfPtr(fv.Clo.Binds[i]), pt.Elem())
					}
				}
			}
			env := &specEnv{w: x.w, pkg: fc.Pkg, vars: vars, st: st, heap: st.heap}
			old := st.snapshot()
			for _, m := range fc.Modifies {
				x.havocEntry(st, fc, m, env)
			}
			env.old = old
			env.heap = st.heap
			for _, sc := range fc.Spawns {
				g, err := env.evalBool(sc.E)
				if err != nil {
					x.reject("contract of %s: spawns %q: %v", fc.Key, sc.Src, err)
				}
				st.assume(g)
			}
		}
	}
	// invoke in a goroutine (go existingC.CloseConnection(...)): apply spawn clauses of the iface contract
	if c.IsInvoke() {
		it := namedKey(c.Value.Type())
		key := "iface:" + it + "." + c.Method.Name()
		if fc, ok := x.w.cs.Funcs[key]; ok && len(fc.Spawns) > 0 {
			fv := x.val(st, fr, c.Value)
			var argv []Val
			for _, a := range c.Args {
				argv = append(argv, x.val(st, fr, a))
			}
			vars := x.bindParams(fc, nil, append([]Val{fv}, argv...))
			env := &specEnv{w: x.w, pkg: fc.Pkg, vars: vars, st: st, heap: st.heap}
			old := st.snapshot()
			for _, m := range fc.Modifies {
				if m.Field != "" && strings.HasPrefix(m.Field, "$") || strings.HasPrefix(m.Class, "$") {
					x.havocEntry(st, fc, m, env)
				}
			}
			env.old = old
			env.heap = st.heap
			for _, sc := range fc.Spawns {
				g, err := env.evalBool(sc.E)
				if err != nil {
					x.reject("contract of %s: spawns %q: %v", fc.Key, sc.Src, err)
				}
				st.assume(g)
			}
		}
	}
}

// noteAppend records when the result of append(s, ...) is certain not to share memory that existed at entry: Go
// appends in place whenever the capacity suffices, so the result is new memory only if s is nil, or its capacity is
// too small, or its own backing array was allocated during this call (and is itself not a shared append result).
func (x *Exec) noteAppend(st *State, result string, s Val, newLen string) {
	if st.appendCond == nil {
		st.appendCond = map[string]string{}
	}
	own := "(> (sarr " + s.S + ") " + x.initAlloc + ")"
	if c, ok := st.appendCond[s.S]; ok {
		own = sAnd(own, c)
	}
	st.appendCond[result] = "(or (= (sarr " + s.S + ") 0) (< (scap " + s.S + ") " + newLen + ") " + own + ")"
}

// ---- builtins ----

func (x *Exec) doBuiltin(st *State, name string, argv []Val, c *ssa.CallCommon, rt types.Type, pos token.Pos) Val {
	switch name {
	case "len":
		v := argv[0]
		switch v.Sort {
		case "String":
			return Val{T: rt, S: "(str.len " + v.S + ")", Sort: "Int"}
		case "Slice":
			return Val{T: rt, S: "(slen " + v.S + ")", Sort: "Int"}
		}
		if mt, ok := c.Args[0].Type().Underlying().(*types.Map); ok {
			x.w.declUF("maplen", "(declare-fun maplen ((Array "+sortOf(mt.Key())+" Bool)) Int)")
			pc, _ := st.mapClasses(mt)
			r := Val{T: rt, S: "(maplen (select " + st.hget(pc) + " " + v.S + "))", Sort: "Int"}
			st.assume("(>= " + r.S + " 0)")
			return r
		}
		r := st.freshVal("len", rt)
		st.assume("(>= " + r.S + " 0)")
		return r
	case "cap":
		if argv[0].Sort == "Slice" {
			return Val{T: rt, S: "(scap " + argv[0].S + ")", Sort: "Int"}
		}
		r := st.freshVal("cap", rt)
		st.assume("(>= " + r.S + " 0)")
		return r
	case "append":
		s := argv[0]
		t := argv[1]
		stT := c.Args[0].Type().Underlying().(*types.Slice)
		et := stT.Elem()
		if t.Sort == "String" {
			// append([]byte, string...)
			r := st.newRef("arr")
			nl := "(+ (slen " + s.S + ") (str.len " + t.S + "))"
			cp := st.fresh("cap", "Int")
			st.assume("(>= " + cp + " " + nl + ")")
			ns := st.define("sl", "Slice", "(mk-slice "+r+" 0 "+nl+" "+cp+")")
			x.noteAppend(st, ns, s, nl)
			x.w.declUF("bytes2str", "(declare-fun bytes2str ((Array Int Int) Int Int) String)")
			cls := st.elemClass(et)
			h := st.hget(cls)
			// prefix cells copied, suffix equals the string
			st.assume("(forall ((i Int)) (! (=> (and (<= 0 i) (< i (slen " + s.S + "))) (= (select (select " + h + " " + r + ") i) (select (select " + h + " (sarr " + s.S + ")) (+ (soff " + s.S + ") i)))) :pattern ((select (select " + h + " " + r + ") i))))")
			st.assume("(= (bytes2str (select " + h + " " + r + ") (slen " + s.S + ") (str.len " + t.S + ")) " + t.S + ")")
			return Val{T: rt, S: ns, Sort: "Slice"}
		}
		if sortOf(et) == "" {
			// composite elements: a fresh backing array whose contents are left unconstrained (over-approximation)
			r := st.newRef("arr")
			nl := "(+ (slen " + s.S + ") (slen " + t.S + "))"
			cp := st.fresh("cap", "Int")
			st.assume("(>= " + cp + " " + nl + ")")
			ns := st.define("sl", "Slice", "(mk-slice "+r+" 0 "+nl+" "+cp+")")
			x.noteAppend(st, ns, s, nl)
			return Val{T: rt, S: ns, Sort: "Slice"}
		}
		cls := st.elemClass(et)
		r := st.newRef("arr")
		nl := "(+ (slen " + s.S + ") (slen " + t.S + "))"
		cp := st.fresh("cap", "Int")
		st.assume("(>= " + cp + " " + nl + ")")
		h := st.hget(cls)
		na := st.fresh("arrc", "(Array Int "+sortOf(et)+")")
		st.assume("(forall ((i Int)) (! (=> (and (<= 0 i) (< i (slen " + s.S + "))) (= (select " + na + " i) (select (select " + h + " (sarr " + s.S + ")) (+ (soff " + s.S + ") i)))) :pattern ((select " + na + " i))))")
		st.assume("(forall ((i Int)) (! (=> (and (<= 0 i) (< i (slen " + t.S + "))) (= (select " + na + " (+ (slen " + s.S + ") i)) (select (select " + h + " (sarr " + t.S + ")) (+ (soff " + t.S + ") i)))) :pattern ((select " + na + " (+ (slen " + s.S + ") i)))))")
		st.hset(cls, "(store "+h+" "+r+" "+na+")")
		ns := st.define("sl", "Slice", "(mk-slice "+r+" 0 "+nl+" "+cp+")")
		x.noteAppend(st, ns, s, nl)
		return Val{T: rt, S: ns, Sort: "Slice"}
	case "delete":
		m, kv := argv[0], argv[1]
		mt := c.Args[0].Type().Underlying().(*types.Map)
		pc, _ := st.mapClasses(mt)
		hp := st.hget(pc)
		// delete on a nil map is a no-op
		st.hset(pc, "(ite (= "+m.S+" 0) "+hp+" (store "+hp+" "+m.S+" (store (select "+hp+" "+m.S+") "+kv.S+" false)))")
		return voidVal()
	case "close":
		x.abstracted["chan close"] = true
		x.chanClose(st, argv[0], pos)
		return voidVal()
	case "copy":
		x.reject("builtin copy")
	case "min", "max":
		op := "<="
		if name == "max" {
			op = ">="
		}
		return Val{T: rt, S: "(ite (" + op + " " + argv[0].S + " " + argv[1].S + ") " + argv[0].S + " " + argv[1].S + ")", Sort: "Int"}
	case "print", "println":
		return voidVal()
	}
	x.reject("builtin %s", name)
	return Val{}
}

func (x *Exec) chanClose(st *State, ch Val, pos token.Pos) {
	if _, ok := x.w.classes["ghost:$chclosed"]; !ok {
		return
	}
	h := st.hget("ghost:$chclosed")
	x.oblige(st, "safety:closeclosed", x.site("close", pos), "", x.safetyTags, sAnd(sNot(sEq(ch.S, "0")), sNot("(select "+h+" "+ch.S+")")), pos, "close of nil or closed channel")
	st.hset("ghost:$chclosed", "(store "+h+" "+ch.S+" true)")
}
