package main

import (
	"fmt"
	"go/token"
	"go/types"
	"strings"

	"golang.org/x/tools/go/ssa"
)

func loopOrdinal(fn *ssa.Function, h *ssa.BasicBlock) int {
	n := 0
	for _, b := range fn.Blocks {
		if b == h {
			return n
		}
		if isLoopHeader(b) {
			n++
		}
	}
	return -1
}

// loopBlocks returns the natural loop of header h.
func loopBlocks(h *ssa.BasicBlock) map[*ssa.BasicBlock]bool {
	body := map[*ssa.BasicBlock]bool{h: true}
	var stack []*ssa.BasicBlock
	for _, p := range h.Preds {
		if isBackEdge(p, h) && !body[p] {
			body[p] = true
			stack = append(stack, p)
		}
	}
	for len(stack) > 0 {
		b := stack[len(stack)-1]
		stack = stack[:len(stack)-1]
		for _, p := range b.Preds {
			if !body[p] {
				body[p] = true
				stack = append(stack, p)
			}
		}
	}
	return body
}

// loopMods over-approximates the heap classes a loop body may write. all=true means everything.
func (x *Exec) loopMods(st *State, fn *ssa.Function, blocks map[*ssa.BasicBlock]bool, depth int) (map[string]bool, bool) {
	mods := map[string]bool{}
	all := false
	var scanFn func(f *ssa.Function, only map[*ssa.BasicBlock]bool, d int)
	scanFn = func(f *ssa.Function, only map[*ssa.BasicBlock]bool, d int) {
		if d > 5 {
			all = true
			return
		}
		for _, b := range f.Blocks {
			if only != nil && !only[b] {
				continue
			}
			for _, ins := range b.Instrs {
				switch in := ins.(type) {
				case *ssa.Store:
					switch a := in.Addr.(type) {
					case *ssa.FieldAddr:
						stT := a.X.Type().Underlying().(*types.Pointer).Elem()
						ft := stT.Underlying().(*types.Struct).Field(a.Field).Type()
						if _, isS := ft.Underlying().(*types.Struct); isS {
							all = true
						} else {
							mods[fieldClass(stT, a.Field)] = true
						}
					case *ssa.IndexAddr:
						var et types.Type
						switch t := a.X.Type().Underlying().(type) {
						case *types.Slice:
							et = t.Elem()
						case *types.Pointer:
							et = t.Elem().Underlying().(*types.Array).Elem()
						}
						if et != nil && sortOf(et) != "" {
							mods[st.elemClass(et)] = true
						} else {
							all = true
						}
					default:
						et := in.Addr.Type().Underlying().(*types.Pointer).Elem()
						if sortOf(et) != "" {
							mods[st.memClass(et)] = true
						} else {
							all = true
						}
					}
				case *ssa.MapUpdate:
					pc, vc := st.mapClasses(in.Map.Type().Underlying().(*types.Map))
					mods[pc], mods[vc] = true, true
				case *ssa.Next:
					if !in.IsString {
						if rg, ok := in.Iter.(*ssa.Range); ok {
							if mt, ok := rg.X.Type().Underlying().(*types.Map); ok {
								mods["ghost:$visited:"+sortOf(mt.Key())] = true
							}
						}
					}
				case ssa.CallInstruction:
					c := in.Common()
					if c.IsInvoke() {
						it := namedKey(c.Value.Type())
						if it == modPath+"/logging.LoggingInterface" {
							continue
						}
						if fc, ok := x.w.cs.Funcs["iface:"+it+"."+c.Method.Name()]; ok {
							x.contractMods(st, fc, mods, &all)
						} else {
							all = true
						}
						continue
					}
					callee := c.StaticCallee()
					if callee == nil {
						if bi, ok := c.Value.(*ssa.Builtin); ok {
							switch bi.Name() {
							case "append":
								et := c.Args[0].Type().Underlying().(*types.Slice).Elem()
								if sortOf(et) != "" {
									mods[st.elemClass(et)] = true
								}
							case "delete":
								pc, vc := st.mapClasses(c.Args[0].Type().Underlying().(*types.Map))
								mods[pc], mods[vc] = true, true
							case "len", "cap", "min", "max", "print", "println":
							default:
								all = true
							}
							continue
						}
						if mc, ok := c.Value.(*ssa.MakeClosure); ok {
							scanFn(mc.Fn.(*ssa.Function), nil, d+1)
							continue
						}
						if fc, ok := x.w.cs.Funcs["functype:"+namedKey(c.Value.Type())]; ok {
							x.contractMods(st, fc, mods, &all)
							continue
						}
						all = true
						continue
					}
					key := funcKey(callee)
					if callee.Origin() != nil {
						key = funcKey(callee.Origin())
					}
					if pureNative(key) {
						continue
					}
					if key == "encoding/json.Unmarshal" {
						// havocs the object the target points to: the field classes of its static type
						mods["gg:$decoded"] = true
						if !x.structClassesOf(st, c.Args[1], mods) {
							all = true
						}
						continue
					}
					if key == "(*sync.Once).Do" {
						all = true
						continue
					}
					if fc, ok := x.w.cs.Funcs[funcKey(callee)]; ok {
						if fc.Inline {
							scanFn(callee, nil, d+1)
						} else {
							x.contractMods(st, fc, mods, &all)
						}
						continue
					}
					cpkg := callee.Pkg
					if cpkg == nil && callee.Origin() != nil {
						cpkg = callee.Origin().Pkg
					}
					if cpkg != nil && strings.HasPrefix(cpkg.Pkg.Path(), modPath) && callee.Blocks != nil {
						scanFn(callee, nil, d+1)
						continue
					}
					all = true
				}
			}
		}
	}
	scanFn(fn, blocks, depth)
	return mods, all
}

func pureNative(key string) bool {
	switch key {
	case "(*sync.Mutex).Lock", "(*sync.Mutex).Unlock", "(*sync.RWMutex).Lock", "(*sync.RWMutex).Unlock", "(*sync.RWMutex).RLock", "(*sync.RWMutex).RUnlock",
		"github.com/enbility/ship-go/logging.Log", "time.After", "errors.New", "fmt.Errorf", "fmt.Sprintf", "fmt.Sprint", "fmt.Sprintln",
		"strings.Contains", "strings.HasPrefix", "strings.HasSuffix", "strings.ReplaceAll", "strings.ToLower", "strings.ToUpper", "strings.TrimPrefix",
		"strings.TrimSuffix", "strings.TrimSpace", "strings.Trim", "strconv.Itoa", "bytes.Contains", "encoding/json.Marshal", "errors.Is",
		"(time.Duration).Milliseconds", "math/rand.Intn", "github.com/enbility/ship-go/util.Ptr":
		return true
	}
	return false
}

func (x *Exec) contractMods(st *State, fc *FuncContract, mods map[string]bool, all *bool) {
	if fc.Pure {
		return
	}
	if fc.ModAll && len(fc.ModExcept) > 0 && len(fc.Havocs) == 0 {
		// everything except the fields of some struct types: recorded as a marker, resolved at the loop header
		mods["\x00allexcept\x00"+strings.Join(fc.ModExcept, ",")] = true
		return
	}
	if fc.ModAll || len(fc.Havocs) > 0 {
		*all = true
		return
	}
	for _, m := range fc.Modifies {
		if m.Class != "" {
			env := &specEnv{w: x.w, pkg: fc.Pkg, vars: map[string]Val{}, st: st, heap: st.heap}
			c, _, _ := x.classOfEntry(st, fc, m, env)
			mods[c] = true
			continue
		}
		// object-granular entries: havoc the whole class inside loops
		if strings.HasPrefix(m.Field, "$") {
			mods["ghost:"+m.Field] = true
			continue
		}
		if m.Index != nil {
			if id, ok := m.E.(EIdent); ok && strings.HasPrefix(id.Name, "$") {
				mods["gg:"+id.Name] = true
				continue
			}
			*all = true
			continue
		}
		// need the static type of the base: resolve by field name over all known classes
		found := false
		for c := range x.w.classes {
			if strings.HasSuffix(c, "."+m.Field) && !strings.HasPrefix(c, "ghost:") {
				mods[c] = true
				found = true
			}
		}
		if !found {
			*all = true
		}
	}
}

func (x *Exec) loopContract(fr *Frame, h *ssa.BasicBlock) (*LoopContract, string) {
	ord := loopOrdinal(fr.fn, h)
	key := fmt.Sprintf("%s#%d", funcKey(fr.fn), ord)
	return x.w.cs.Loops[key], key
}

func (x *Exec) loopEnv(st *State, fr *Frame, h *ssa.BasicBlock, lc *LoopContract) *specEnv {
	vars := map[string]Val{}
	// function parameters / receiver by their source names
	for _, p := range fr.fn.Params {
		if v, ok := fr.vals[p]; ok {
			vars[p.Name()] = v
		}
	}
	for i, f := range fr.fn.FreeVars {
		vars[f.Name()] = fr.free[i]
	}
	// source variables carried by phis of enclosing / earlier loops, then those of this loop header
	for val, v := range fr.vals {
		if phi, ok := val.(*ssa.Phi); ok && phi.Comment != "" && phi.Block() != h && phi.Block().Dominates(h) {
			if old, dup := vars[phi.Comment]; !dup || old.S == "" {
				vars[phi.Comment] = v
			}
			// the index and the ranged slice of an enclosing range loop stay reachable as <name>_outer
			if isLoopHeader(phi.Block()) && loopBlocks(phi.Block())[h] {
				vars[phi.Comment+"_outer"] = v
				if phi.Comment == "rangeindex" {
					if rs, ok := x.rangeSliceOf(fr, phi.Block()); ok {
						vars["$rangeslice_outer"] = rs
					}
				}
			}
		}
	}
	for _, ins := range h.Instrs {
		if phi, ok := ins.(*ssa.Phi); ok {
			if v, ok := fr.vals[phi]; ok && phi.Comment != "" {
				vars[phi.Comment] = v
			}
		}
	}
	// the iterator of a range-over-map loop: spec builtin visited(k)
	for _, ins := range h.Instrs {
		if nx, ok := ins.(*ssa.Next); ok && !nx.IsString {
			if it, ok := fr.vals[nx.Iter]; ok && len(it.Fs) == 3 {
				vars["$iter"] = it.Fs[1]
				vars["$itermap"] = it.Fs[0]
			}
		}
	}
	// $rangeslice: the slice a range-over-slice loop iterates (the operand of the len() bounding rangeindex)
	if rs, ok := x.rangeSliceOf(fr, h); ok {
		vars["$rangeslice"] = rs
	}
	// source-level locals that denote a single SSA value (assigned once) are visible by their names
	for name, val := range x.w.debugNames(fr.fn) {
		if _, ok := vars[name]; ok {
			continue
		}
		if v, ok := fr.vals[val]; ok {
			vars[name] = v
		}
	}
	// named SSA values visible by their names (t5 ...) for advanced invariants
	if lc != nil {
		for spec, src := range lc.Binds {
			if v, ok := vars[src]; ok {
				vars[spec] = v
				continue
			}
			for val, v := range fr.vals {
				if val.Name() == src {
					vars[spec] = v
				}
			}
		}
	}
	pkg := ""
	if lc != nil {
		pkg = lc.Pkg
	} else if fr.fn.Pkg != nil {
		pkg = fr.fn.Pkg.Pkg.Path()
	}
	env := &specEnv{w: x.w, pkg: pkg, vars: vars, st: st, heap: st.heap, old: x.oldOf(st)}
	if fr.isTop {
		for k, v := range x.entryEnv {
			if _, ok := vars[k]; !ok {
				vars[k] = v
			}
		}
	}
	return env
}

// rangeIndexInv is the automatic invariant of range-over-slice loops: -1 <= idx < len.
func (x *Exec) rangeIndexInv(st *State, fr *Frame, h *ssa.BasicBlock, phi *ssa.Phi) string {
	v := fr.vals[phi]
	inv := "(>= " + v.S + " (- 1))"
	for _, ins := range h.Instrs {
		add, ok := ins.(*ssa.BinOp)
		if !ok || add.Op != token.ADD || add.X != ssa.Value(phi) {
			continue
		}
		for _, ins2 := range h.Instrs {
			cmp, ok := ins2.(*ssa.BinOp)
			if !ok || cmp.Op != token.LSS || cmp.X != ssa.Value(add) {
				continue
			}
			if l, ok := fr.vals[cmp.Y]; ok && l.S != "" {
				inv = sAnd(inv, "(< "+v.S+" "+l.S+")")
			}
		}
	}
	return inv
}

func (x *Exec) loopInvariants(st *State, fr *Frame, h *ssa.BasicBlock, lc *LoopContract, kind string) {
	// automatic invariant for range-over-slice loops
	for _, ins := range h.Instrs {
		if phi, ok := ins.(*ssa.Phi); ok && phi.Comment == "rangeindex" {
			x.oblige(st, kind, fmt.Sprintf("loop%d", loopOrdinal(fr.fn, h)), "rangeindex", nil, x.rangeIndexInv(st, fr, h, phi), phi.Pos(), "-1 <= range index < len")
		}
	}
	if lc == nil {
		return
	}
	env := x.loopEnv(st, fr, h, lc)
	for i, ic := range lc.Invariants {
		g, err := env.evalBool(ic.E)
		if err != nil {
			x.reject("loop contract %s#%d: invariant %q: %v", lc.FuncKey, lc.Ordinal, ic.Src, err)
		}
		label := ic.Label
		if label == "" {
			label = fmt.Sprintf("inv%d", i)
		}
		x.oblige(st, kind, fmt.Sprintf("loop%d", lc.Ordinal), label, ic.Tags, g, h.Instrs[0].Pos(), ic.Src)
	}
}

func (x *Exec) loopEnter(st *State, fr *Frame, h *ssa.BasicBlock, prev *ssa.BasicBlock, k contK) {
	lc, _ := x.loopContract(fr, h)
	// bind phis for the entry edge
	for _, ins := range h.Instrs {
		phi, ok := ins.(*ssa.Phi)
		if !ok {
			break
		}
		for j, p := range h.Preds {
			if p == prev {
				v := x.val(st, fr, phi.Edges[j])
				v.T = phi.Type()
				fr.vals[phi] = v
			}
		}
	}
	x.loopInvariants(st, fr, h, lc, "inv-entry")
	// havoc
	blocks := loopBlocks(h)
	mods, all := x.loopMods(st, fr.fn, blocks, 0)
	// callees that modify everything except the fields of some struct types: what all of them spare is spared
	var except []string
	nExcept := 0
	for c := range mods {
		if strings.HasPrefix(c, "\x00allexcept\x00") {
			ts := strings.Split(c[len("\x00allexcept\x00"):], ",")
			if nExcept == 0 {
				except = ts
			} else {
				var both []string
				for _, t := range except {
					if contains(ts, t) {
						both = append(both, t)
					}
				}
				except = both
			}
			nExcept++
		}
	}
	if all {
		st.havocAll()
	} else {
		if nExcept > 0 {
			st.havocAllExcept(except)
		}
		for c := range mods {
			if _, ok := x.w.classes[c]; ok {
				st.havocClass(c)
			}
		}
	}
	st.growAlloc()
	for _, ins := range h.Instrs {
		phi, ok := ins.(*ssa.Phi)
		if !ok {
			break
		}
		fr.vals[phi] = st.freshVal(hintOf(phi.Comment, "phi"), phi.Type())
	}
	// the function's own frame condition is maintained as an implicit loop invariant for the havoc'd classes
	if fr.isTop && x.fc != nil && !x.fc.ModAll && x.fc.Kind != "closure" && !all {
		for _, fg := range x.frameGoals(st, x.fc, x.entryEnv, mods) {
			st.assume(fg[1])
		}
	}
	// assume the invariants for the havoc'd state
	x.assumeInvariants(st, fr, h, lc)
	x.runInstrs(st, fr, h, prev, 0, k)
}

func (x *Exec) assumeInvariants(st *State, fr *Frame, h *ssa.BasicBlock, lc *LoopContract) {
	for _, ins := range h.Instrs {
		if phi, ok := ins.(*ssa.Phi); ok && phi.Comment == "rangeindex" {
			st.assume(x.rangeIndexInv(st, fr, h, phi))
		}
	}
	if lc == nil {
		return
	}
	env := x.loopEnv(st, fr, h, lc)
	for _, ic := range lc.Invariants {
		g, err := env.evalBool(ic.E)
		if err != nil {
			x.reject("loop contract %s#%d: invariant %q: %v", lc.FuncKey, lc.Ordinal, ic.Src, err)
		}
		st.assume(g)
	}
}

func (x *Exec) loopBackEdge(st *State, fr *Frame, h *ssa.BasicBlock, prev *ssa.BasicBlock) {
	lc, _ := x.loopContract(fr, h)
	for _, ins := range h.Instrs {
		phi, ok := ins.(*ssa.Phi)
		if !ok {
			break
		}
		for j, p := range h.Preds {
			if p == prev {
				v := x.val(st, fr, phi.Edges[j])
				v.T = phi.Type()
				fr.vals[phi] = v
			}
		}
	}
	x.loopInvariants(st, fr, h, lc, "inv-preserve")
	if fr.isTop && x.fc != nil && !x.fc.ModAll && x.fc.Kind != "closure" {
		blocks := loopBlocks(h)
		mods, all := x.loopMods(st, fr.fn, blocks, 0)
		if !all {
			for _, fg := range x.frameGoals(st, x.fc, x.entryEnv, mods) {
				x.oblige(st, "inv-preserve", fmt.Sprintf("loop%d", loopOrdinal(fr.fn, h)), "frame:"+fg[0], nil, fg[1], h.Instrs[0].Pos(), "loop keeps the function's frame: "+fg[0])
			}
		}
	}
}

// structClassesOf adds the heap classes of the struct a (possibly interface-wrapped) pointer value points to.
func (x *Exec) structClassesOf(st *State, v ssa.Value, mods map[string]bool) bool {
	if mi, ok := v.(*ssa.MakeInterface); ok {
		v = mi.X
	}
	p, ok := v.Type().Underlying().(*types.Pointer)
	if !ok {
		return false
	}
	var add func(t types.Type, depth int) bool
	add = func(t types.Type, depth int) bool {
		s, ok := t.Underlying().(*types.Struct)
		if !ok || depth > 4 {
			return false
		}
		for i := 0; i < s.NumFields(); i++ {
			ft := s.Field(i).Type()
			if _, isS := ft.Underlying().(*types.Struct); isS {
				if !add(ft, depth+1) {
					return false
				}
				continue
			}
			if sortOf(ft) == "" {
				return false
			}
			c := fieldClass(t, i)
			x.w.declClass(c, "(Array Int "+sortOf(ft)+")")
			mods[c] = true
		}
		return true
	}
	return add(p.Elem(), 0)
}

// rangeSliceOf finds the slice value a range-over-slice loop with header h iterates over.
func (x *Exec) rangeSliceOf(fr *Frame, h *ssa.BasicBlock) (Val, bool) {
	for _, ins := range h.Instrs {
		if cmp, ok := ins.(*ssa.BinOp); ok && cmp.Op == token.LSS {
			if lc, ok := cmp.Y.(*ssa.Call); ok {
				if bi, ok := lc.Call.Value.(*ssa.Builtin); ok && bi.Name() == "len" && len(lc.Call.Args) == 1 {
					if v, ok := fr.vals[lc.Call.Args[0]]; ok {
						v.T = lc.Call.Args[0].Type()
						return v, true
					}
				}
			}
		}
	}
	return Val{}, false
}
