package main

import (
	"encoding/json"
	"flag"
	"fmt"
	"go/types"

	"golang.org/x/tools/go/ssa"
	"os"
	"path/filepath"
	"regexp"
	"sort"
	"strconv"
	"strings"
	"time"
)

type knownFinding struct {
	Kind       string // finding | fixed
	Property   string
	Obligation string // glob on obligation names (finding)
	What       string
	Raw        string
}

func loadKnown(path string) ([]knownFinding, error) {
	data, err := os.ReadFile(path)
	if err != nil {
		if os.IsNotExist(err) {
			return nil, nil
		}
		return nil, err
	}
	var out []knownFinding
	for _, ln := range strings.Split(string(data), "\n") {
		ln = strings.TrimSpace(ln)
		if ln == "" || strings.HasPrefix(ln, "#") {
			continue
		}
		kf := knownFinding{Raw: ln}
		switch {
		case strings.HasPrefix(ln, "finding:"):
			kf.Kind = "finding"
			rest := strings.TrimSpace(ln[len("finding:"):])
			for _, f := range strings.Fields(rest) {
				if strings.HasPrefix(f, "property=") {
					kf.Property = f[len("property="):]
				}
				if strings.HasPrefix(f, "obligation=") {
					kf.Obligation = f[len("obligation="):]
				}
			}
			if i := strings.Index(rest, "witness="); i >= 0 {
				kf.What = rest[i+len("witness="):]
			}
		case strings.HasPrefix(ln, "fixed:"):
			kf.Kind = "fixed"
			rest := strings.TrimSpace(ln[len("fixed:"):])
			for _, f := range strings.Fields(rest) {
				if strings.HasPrefix(f, "property=") {
					kf.Property = f[len("property="):]
				}
			}
			kf.What = rest
		default:
			return nil, fmt.Errorf("known-findings: cannot parse %q", ln)
		}
		out = append(out, kf)
	}
	return out, nil
}

func globMatch(pat, s string) bool {
	re := "^" + strings.ReplaceAll(regexp.QuoteMeta(pat), `\*`, ".*") + "$"
	ok, _ := regexp.MatchString(re, s)
	return ok
}

type oblGroup struct {
	Name      string
	Fn        string
	Kind      string
	Tags      []string
	Src       string
	Pos       string
	Instances int
	Failed    []*Obligation
	Solvers   map[string]int
	coverOK   bool
}

type checkResult struct {
	Prop        string
	Tier        string
	Groups      []*oblGroup
	Funcs       []*FuncResult
	Violations  []violation
	Known       []string
	KnownReplays []interface{}
	Bounded     map[string]interface{}
	Lockset     map[string]interface{}
	Stats       SolveStats
	Orphans     []string
	Lemmas      int
	Wall        float64
	LoadSecs    float64
	Assumptions []string
	Trusted     []string
	Inlined     []string
	Abstracted  map[string][]string
	Covers      int
	Instances   int
	Discharged  int
	Relevant    int
}

type violation struct {
	Obligation string
	Reason     string
	Replay     string
	NoInput    bool
}

func hasTag(tags []string, t string) bool {
	for _, x := range tags {
		if x == t {
			return true
		}
	}
	return false
}

// relevant decides whether an obligation belongs to the proof of property p.
func relevant(o *Obligation, p string) bool {
	if hasTag(o.Tags, p) {
		return true
	}
	if strings.HasPrefix(o.Kind, "safety:") {
		return false // safety obligations belong to C08 (tagged there)
	}
	if len(o.Tags) == 0 {
		return true // helper clauses, frames, covers: the proof depends on them
	}
	return false
}

func cmdCheck(args []string) {
	fs := flag.NewFlagSet("check", flag.ExitOnError)
	repo := fs.String("repo", "/repo", "repository root")
	prop := fs.String("prop", "", "property id")
	tier := fs.String("tier", "quick", "quick|thorough")
	evid := fs.String("evidence", "", "evidence file to write")
	known := fs.String("known", "/verif/known-findings.txt", "known findings file")
	replays := fs.String("replays", "/verif/replays", "directory for replay files")
	timeout := fs.Int("t", 10000, "per-query timeout ms")
	fs.Parse(args)
	if *prop == "" {
		fmt.Println("need -prop")
		os.Exit(2)
	}
	seed := 0
	if s := os.Getenv("VERIF_SEED"); s != "" {
		seed, _ = strconv.Atoi(s)
	}
	if t := os.Getenv("VERIF_TIER"); t == "quick" || t == "thorough" {
		*tier = t
	}
	t0 := time.Now()
	w, err := loadWorld(*repo, allPkgs)
	if err != nil {
		fmt.Println("ERROR: cannot load", *repo, ":", err)
		os.Exit(2)
	}
	if err := w.loadContracts(); err != nil {
		fmt.Println("ERROR: contracts:", err)
		os.Exit(2)
	}
	res := &checkResult{Prop: *prop, Tier: *tier, Abstracted: map[string][]string{}}
	res.LoadSecs = time.Since(t0).Seconds()
	kfs, err := loadKnown(*known)
	if err != nil {
		fmt.Println("ERROR:", err)
		os.Exit(2)
	}
	// clauses recorded as open findings are not assumed at call sites: no proof rests on a clause known to be false
	for _, kf := range kfs {
		if kf.Kind == "finding" {
			w.knownObl = append(w.knownObl, kf)
		}
	}
	activeProp = *prop
	runProperty(w, res, *tier == "thorough", *timeout)
	// classify
	os.MkdirAll(*replays, 0o755)
	exit := 0
	// an undischarged obligation is assumed on the rest of its path, which can make the exit cover of the same
	// function unsatisfiable: such a cover failure is a consequence, not a finding of its own
	failedFns := map[string]bool{}
	for _, g := range res.Groups {
		if len(g.Failed) > 0 && g.Kind != "cover" {
			failedFns[g.Fn] = true
		}
	}
	for _, g := range res.Groups {
		if len(g.Failed) == 0 {
			continue
		}
		if g.Kind == "cover" && failedFns[g.Fn] {
			fmt.Printf("  (exit cover of %s not checked: an obligation of the same function failed and is assumed on the rest of its path)\n", shortKey(g.Fn))
			continue
		}
		matched := false
		for _, kf := range kfs {
			if kf.Kind == "finding" && kf.Property == *prop && globMatch(kf.Obligation, g.Name) {
				fmt.Printf("KNOWN-FINDING: property=%s %s (obligation %s)\n", *prop, kf.What, g.Name)
				res.Known = append(res.Known, g.Name)
				matched = true
				if *tier == "thorough" {
					// confirm that the finding is still real on the current tree
					if ok, d := tryReplay(w, res, g, g.Failed[0], nil, *repo, ""); d != nil {
						fmt.Printf("  known finding re-replayed on the real code: reproduced=%v\n", ok)
						res.KnownReplays = append(res.KnownReplays, map[string]interface{}{"obligation": g.Name, "reproduced": ok, "driver": d["driver"]})
					}
				}
				break
			}
		}
		if matched {
			continue
		}
		v := makeReplay(w, res, g, *replays, *repo)
		res.Violations = append(res.Violations, v)
		line := fmt.Sprintf("VIOLATION property=%s replay=%s", *prop, v.Replay)
		fmt.Printf("  obligation %s not discharged (%s): %s\n", g.Name, g.Failed[0].Status, g.Src)
		if v.NoInput {
			line += " no-failing-input-found"
		}
		fmt.Println(line)
		exit = 1
	}
	for _, f := range res.Funcs {
		if f.Rejected != "" {
			path := filepath.Join(*replays, fmt.Sprintf("%s-rejected-%s.json", *prop, sanitize(shortKey(f.Key))))
			writeJSON(path, map[string]interface{}{"property": *prop, "obligation": "function-under-contract:" + shortKey(f.Key), "status": "rejected", "reason": f.Rejected,
				"explanation": "a function this property's proof depends on could not be brought under the verifier (construct outside the modelled subset or contract error); the property has lost a carrier"})
			fmt.Printf("  function %s rejected: %s\n", shortKey(f.Key), f.Rejected)
			// a fixed-scenario replay registered for this function (and property) is still run against the real code
			noInput := true
			if ok, d := tryReplay(w, res, &oblGroup{Name: "function:" + shortKey(f.Key)}, nil, nil, *repo, ""); d != nil && strings.HasPrefix(fmt.Sprint(d["driver"]), "template") {
				writeJSON(path, map[string]interface{}{"property": *prop, "obligation": "function-under-contract:" + shortKey(f.Key), "status": "rejected", "reason": f.Rejected, "replay": d, "reproduced_on_real_code": ok})
				noInput = !ok
			}
			line := fmt.Sprintf("VIOLATION property=%s replay=%s", *prop, path)
			if noInput {
				line += " no-failing-input-found"
			}
			fmt.Println(line)
			res.Violations = append(res.Violations, violation{Obligation: "function:" + shortKey(f.Key), Reason: f.Rejected, Replay: path, NoInput: noInput})
			exit = 1
		}
	}
	for _, o := range res.Orphans {
		path := filepath.Join(*replays, fmt.Sprintf("%s-orphan-%s.json", *prop, sanitize(o)))
		writeJSON(path, map[string]interface{}{"property": *prop, "obligation": "contract-orphaned:" + o, "status": "orphaned",
			"explanation": "a contract names a function that no longer exists in the tree"})
		fmt.Printf("  contract orphaned: %s\n", o)
		fmt.Printf("VIOLATION property=%s replay=%s no-failing-input-found\n", *prop, path)
		res.Violations = append(res.Violations, violation{Obligation: "orphan:" + o, Replay: path, NoInput: true})
		exit = 1
	}
	// bounded stand-ins (labelled bounded) for the parts of a property outside the verifier's reach
	if tests, ok := boundedTests[*prop]; ok {
		for _, test := range strings.Split(tests, ",") {
			bev, bvio := boundedCheck(*prop, test, *repo, *tier, seed, kfs, *replays)
			if res.Bounded == nil {
				res.Bounded = bev
			} else {
				// several stand-ins: keep each under its test name, add up the counts
				res.Bounded[test] = bev
				if a, ok := res.Bounded["evaluations"].(int); ok {
					if b, ok := bev["evaluations"].(int); ok {
						res.Bounded["evaluations"] = a + b
					}
				}
				if a, ok := res.Bounded["distinct_nontrivial"].(int); ok {
					if b, ok := bev["distinct_nontrivial"].(int); ok {
						res.Bounded["distinct_nontrivial"] = a + b
					}
				}
			}
			if bvio > 0 {
				exit = 1
				for i := 0; i < bvio; i++ {
					res.Violations = append(res.Violations, violation{Obligation: "bounded:" + *prop + ":" + test, Replay: *replays})
				}
			}
		}
	}
	if res.Relevant == 0 && exit == 0 && res.Bounded == nil {
		path := filepath.Join(*replays, fmt.Sprintf("%s-vacuous.json", *prop))
		writeJSON(path, map[string]interface{}{"property": *prop, "obligation": "vacuity", "status": "no obligations generated"})
		fmt.Printf("VIOLATION property=%s replay=%s no-failing-input-found\n", *prop, path)
		exit = 1
	}
	res.Wall = time.Since(t0).Seconds()
	if *evid != "" {
		writeEvidence(w, res, *evid, seed)
	}
	fmt.Printf("property %s (%s): %d functions, %d obligations (%d instances), %d discharged, %d known findings, %d violations, %.1fs\n",
		*prop, *tier, len(res.Funcs), len(res.Groups), res.Instances, res.Discharged, len(res.Known), len(res.Violations), res.Wall)
	os.Exit(exit)
}

func writeJSON(path string, v interface{}) {
	b, _ := json.MarshalIndent(v, "", " ")
	os.WriteFile(path, b, 0o644)
}

// propertyFuncs selects the functions verified for a property.
func propertyFuncs(w *World, p string) (keys []string) {
	seen := map[string]bool{}
	for k, fc := range w.cs.Funcs {
		if fc.Kind != "func" && fc.Kind != "closure" {
			continue
		}
		if fc.Inline || fc.Trusted {
			continue
		}
		in := hasTag(fc.Tags, p) || p == "C08" // the safety sweep covers every function under contract
		cls := append(append([]*Clause{}, fc.Requires...), fc.Ensures...)
		for _, acs := range fc.AtCalls {
			cls = append(cls, acs...)
		}
		for _, c := range cls {
			if hasTag(c.Tags, p) {
				in = true
			}
		}
		if in && !seen[k] {
			seen[k] = true
			keys = append(keys, k)
		}
	}
	sort.Strings(keys)
	return
}

func runProperty(w *World, res *checkResult, thorough bool, timeoutMs int) {
	p := res.Prop
	keys := propertyFuncs(w, p)
	var all []*Obligation
	safetyTags := []string{"C08"}
	// The proof of a property is modular: a caller is checked against the contracts of its callees, so those
	// contracts must themselves be verified. The work list starts with the functions listed for the property and is
	// closed under "applies the contract of" (dependencies: everything but their safety obligations is relevant).
	isDep := map[string]bool{}
	queued := map[string]bool{}
	for _, k := range keys {
		queued[k] = true
	}
	for qi := 0; qi < len(keys); qi++ {
		k := keys[qi]
		fn := w.funcs[k]
		if fn == nil {
			res.Orphans = append(res.Orphans, shortKey(k))
			continue
		}
		r := w.verifyFunc(fn, w.cs.Funcs[k], safetyTags, p == "C20")
		r.Dep = isDep[k]
		res.Funcs = append(res.Funcs, r)
		if p != "C20" {
			var more []string
			for _, u := range r.Used {
				if queued[u] {
					continue
				}
				if dfc := w.cs.Funcs[u]; dfc != nil && (dfc.Kind == "func" || dfc.Kind == "closure") && !dfc.Inline && !dfc.Trusted && w.funcs[u] != nil {
					queued[u], isDep[u] = true, true
					more = append(more, u)
				}
			}
			sort.Strings(more)
			keys = append(keys, more...)
		}
		if r.Rejected != "" {
			continue
		}
		if len(r.Abstracted) > 0 {
			res.Abstracted[shortKey(k)] = r.Abstracted
		}
		res.Inlined = append(res.Inlined, r.Inlined...)
		res.Trusted = append(res.Trusted, r.Trusted...)
		for _, o := range r.Obls {
			if !hasTag(o.Tags, p) && w.isKnownFinding(o.Name, "") {
				// an open finding of another property (reported by that property's check, assumed nowhere: see
				// applyContract): not part of this property, neither as a dependency nor in the thorough tier
				continue
			}
			if thorough || relevant(o, p) || (isDep[k] && !strings.HasPrefix(o.Kind, "safety:")) {
				all = append(all, o)
			}
		}
		if fc := w.cs.Funcs[k]; fc.Implements != "" && !isDep[k] {
			d := w.ifaceAsContract(fc)
			if d == nil {
				res.Orphans = append(res.Orphans, shortKey(k)+" implements "+fc.Implements)
				continue
			}
			r2 := w.verifyFunc(fn, d, safetyTags, false)
			r2.Key += "@iface"
			res.Funcs = append(res.Funcs, r2)
			for _, o := range r2.Obls {
				if !strings.HasPrefix(o.Kind, "safety:") && o.Kind != "cover" && (thorough || relevant(o, p)) {
					all = append(all, o)
				}
			}
		}
	}
	// every contract must name an existing function (any property): orphan detection for this property's tags
	for k, fc := range w.cs.Funcs {
		if (fc.Kind == "func" || fc.Kind == "closure") && w.funcs[k] == nil && (hasTag(fc.Tags, p) || fc.Inline) {
			if !contains(res.Orphans, shortKey(k)) {
				res.Orphans = append(res.Orphans, shortKey(k))
			}
		}
	}
	// lemmas
	for _, lm := range w.cs.Lemmas {
		if !hasTag(lm.Tags, p) {
			continue
		}
		env := &specEnv{w: w, pkg: lm.Pkg, vars: map[string]Val{}, pure: true}
		g, err := env.evalBool(lm.E)
		o := &Obligation{Name: "lemma:" + lm.Name, Fn: "lemma", Kind: "lemma", Tags: lm.Tags, Label: lm.Name, Goal: g, Src: lm.Src}
		if err != nil {
			o.Goal = "false"
			o.Src = "lemma does not evaluate: " + err.Error()
		}
		all = append(all, o)
		res.Lemmas++
	}
	all = append(all, w.writersObligations(p)...)
	if p == "C20" {
		lo := w.locksetObligations()
		all = append(all, lo...)
		fnset := map[string]bool{}
		for _, o := range lo {
			fnset[o.Fn] = true
		}
		var decl []string
		for _, gd := range w.cs.Guards {
			d := gd.Kind + " " + strings.Join(gd.Fields, ", ")
			if gd.By != "" {
				d += " by " + gd.By
			}
			if gd.Why != "" {
				d += " because " + gd.Why
			}
			decl = append(decl, shortKey(d))
		}
		res.Lockset = map[string]interface{}{"functions_with_guarded_accesses": len(fnset), "access_obligations": len(lo), "declarations": decl}
	}
	if p == "C12" {
		// the serialisation of socket writes is part of C12 as well
		for _, o := range w.locksetObligations() {
			if strings.Contains(o.Name, "#lock:call ") {
				o.Tags = append(o.Tags, "C12")
				all = append(all, o)
			}
		}
	}
	if p == "C08" || p == "C12" || p == "C13" || p == "C19" {
		// deadlock freedom of the module's own mutexes: no cycle in "may be acquired while ... may be held" (classes =
		// struct type + mutex field; calls through interfaces resolved to the module's implementations), and no class
		// re-acquired while it may already be held
		lo := runLockOrder(w)
		o := &Obligation{Name: "lockorder:acyclic", Fn: "lockorder", Kind: "lockorder", Tags: []string{p}, Goal: "true", Status: "trivial",
			Src: fmt.Sprintf("the lock order of the module's mutexes is acyclic (%d ordered pairs of mutex classes)", func() int { n := 0; for _, m := range lo.edges { n += len(m) }; return n }())}
		if cyc := lo.cycles(); len(cyc) > 0 {
			o.Status, o.Solver, o.Goal = "sat", "syntactic", "false"
			var parts []string
			for _, c := range cyc {
				var ws []string
				for i := range c {
					ws = append(ws, lo.edges[c[i]][c[(i+1)%len(c)]])
				}
				parts = append(parts, strings.Join(c, " -> ")+" -> "+c[0]+": "+strings.Join(ws, "; "))
			}
			o.Output = strings.Join(parts, " | ")
		}
		all = append(all, o)
		o2 := &Obligation{Name: "lockorder:no-reacquire", Fn: "lockorder", Kind: "lockorder", Tags: []string{p}, Goal: "true", Status: "trivial", Src: "no mutex class is acquired while a mutex of the same class may be held (sync.Mutex is not reentrant)"}
		if len(lo.selfs) > 0 {
			o2.Status, o2.Solver, o2.Goal = "sat", "syntactic", "false"
			var parts []string
			for _, wit := range lo.selfs {
				parts = append(parts, wit)
			}
			sort.Strings(parts)
			o2.Output = strings.Join(parts, " | ")
		}
		all = append(all, o2)
		// a goroutine that blocks on a channel while it holds a mutex is released by another goroutine; that goroutine
		// must never wait for the mutex: every such site needs a `lockfree` declaration for the mutex it holds
		o3 := &Obligation{Name: "lockorder:blocking-covered", Fn: "lockorder", Kind: "lockorder", Tags: []string{p}, Goal: "true", Status: "trivial",
			Src: fmt.Sprintf("every blocking channel operation under a held mutex (%d sites) is covered by a lockfree declaration for that mutex", len(lo.blocks))}
		var uncovered []string
		for i, b := range lo.blocks {
			for _, cls := range lo.blockCl[i] {
				ok := false
				for _, wd := range w.cs.Writers {
					if wd.LockFree && shortKey(wd.Field) == cls {
						ok = true
					}
				}
				if !ok {
					uncovered = append(uncovered, b)
				}
			}
		}
		if len(uncovered) > 0 {
			o3.Status, o3.Solver, o3.Goal = "sat", "syntactic", "false"
			o3.Output = strings.Join(uncovered, " | ")
		}
		all = append(all, o3)
	}
	if p == "C20" {
		// package-level variables: besides the struct fields covered by the declarations above, state shared between
		// goroutines can live in package variables (a cached buffer, a pool). None is written outside an initialiser.
		gw := globalWrites(w)
		o := &Obligation{Name: "globals:readonly", Fn: "globals", Kind: "globals", Tags: []string{"C20"}, Goal: "true", Status: "trivial",
			Src: "no function of the module stores to a package-level variable, or hands out its address, outside a package initialiser (sync primitives and the logger under logging.mux excepted)"}
		if len(gw) > 0 {
			o.Status, o.Solver, o.Goal = "sat", "syntactic", "false"
			o.Output = strings.Join(gw, " | ")
		}
		all = append(all, o)
	}
	if p == "C14" {
		// the yes/no answer of an expired timer is atomic with arming and stopping only because the running mark,
		// the timer type and the installed stop channel are accessed under the timer mutex: those lock-discipline
		// obligations are part of C14
		n := 0
		for _, o := range w.locksetObligations() {
			if strings.Contains(o.Name, "#lock:ship.ShipConnection.handshakeTimer") {
				o.Tags = append(o.Tags, "C14")
				all = append(all, o)
				n++
			}
		}
		if n == 0 {
			all = append(all, &Obligation{Name: "lock:ship.ShipConnection.handshakeTimer*", Fn: "lockset", Kind: "lock", Tags: []string{"C14"}, Goal: "false", Src: "no lock-discipline obligation on the handshake timer fields was generated: the fields are no longer declared guarded", Status: "sat", Solver: "syntactic"})
		}
	}
	w.solve(all, timeoutMs, thorough, &res.Stats)
	// group by name
	groups := map[string]*oblGroup{}
	var order []string
	for _, o := range all {
		g := groups[o.Name]
		if g == nil {
			g = &oblGroup{Name: o.Name, Fn: o.Fn, Kind: o.Kind, Tags: o.Tags, Src: o.Src, Pos: o.Pos, Solvers: map[string]int{}}
			groups[o.Name] = g
			order = append(order, o.Name)
		}
		g.Instances++
		res.Instances++
		if o.Cover {
			res.Covers++
		}
		ok := o.Status == "unsat" && !o.Cover || o.Cover && o.Status == "sat"
		if ok {
			g.Solvers[o.Solver]++
		} else {
			g.Failed = append(g.Failed, o)
		}
		if o.Cover && ok {
			g.coverOK = true
		}
		if relevant(o, p) {
			res.Relevant++
		}
	}
	sort.Strings(order)
	for _, n := range order {
		g := groups[n]
		if g.Kind == "cover" && g.coverOK {
			g.Failed = nil // a cover group holds when at least one instance is satisfiable
		}
		res.Groups = append(res.Groups, g)
		if len(g.Failed) == 0 {
			res.Discharged++
		}
	}
	sort.Strings(res.Inlined)
	res.Inlined = uniq(res.Inlined)
	sort.Strings(res.Trusted)
	res.Trusted = uniq(res.Trusted)
}

func uniq(xs []string) []string {
	var out []string
	for i, x := range xs {
		if i == 0 || xs[i-1] != x {
			out = append(out, x)
		}
	}
	return out
}

// makeReplay writes the replay file for a failed obligation group and, where a replay driver exists
// for the obligation family, runs the counterexample against the real code.
func makeReplay(w *World, res *checkResult, g *oblGroup, dir, repo string) violation {
	o := g.Failed[0]
	path := filepath.Join(dir, fmt.Sprintf("%s-%s.json", res.Prop, sanitize(g.Name)))
	rep := map[string]interface{}{
		"property":      res.Prop,
		"obligation":    g.Name,
		"clause":        g.Src,
		"position":      g.Pos,
		"status":        o.Status,
		"solver":        o.Solver,
		"path":          o.Trace,
		"failed_paths":  len(g.Failed),
		"total_paths":   g.Instances,
		"solver_output": truncate(o.Output, 6000),
	}
	v := violation{Obligation: g.Name, Reason: o.Status, Replay: path, NoInput: true}
	smt := strings.TrimSuffix(path, ".json") + ".smt2"
	writeFile(smt, w.script(o, true))
	rep["smt_query"] = smt
	{
		var model map[string]string
		if o.Status == "sat" {
			model = parseModel(o.Output)
			rep["model"] = model
		}
		// a replay driver is tried for every undischarged obligation (also when the solver only said unknown)
		if ok, detail := tryReplay(w, res, g, o, model, repo, strings.TrimSuffix(path, ".json")); detail != nil {
			rep["replay"] = detail
			if ok {
				v.NoInput = false
			}
		}
	}
	rep["reproduced_on_real_code"] = !v.NoInput
	writeJSON(path, rep)
	return v
}

func truncate(s string, n int) string {
	if len(s) > n {
		return s[:n] + "...[truncated]"
	}
	return s
}

// parseModel extracts (define-fun name () Sort value) entries from a solver model.
func parseModel(out string) map[string]string {
	m := map[string]string{}
	re := regexp.MustCompile(`\(define-fun\s+(\|[^|]*\||[^\s()]+)\s+\(\)\s+(\([^()]*\)|[^\s()]+)\s+`)
	idxs := re.FindAllStringSubmatchIndex(out, -1)
	for _, ix := range idxs {
		name := out[ix[2]:ix[3]]
		// value: balanced s-expression starting at ix[1]
		j := ix[1]
		depth := 0
		start := j
		inStr := false
		for j < len(out) {
			c := out[j]
			if c == '"' {
				inStr = !inStr
			}
			if !inStr {
				if c == '(' {
					depth++
				}
				if c == ')' {
					if depth == 0 {
						break
					}
					depth--
				}
			}
			j++
		}
		val := strings.TrimSpace(out[start:j])
		if len(val) < 400 {
			m[strings.Trim(name, "|")] = val
		}
	}
	return m
}

func writeEvidence(w *World, res *checkResult, path string, seed int) {
	os.MkdirAll(filepath.Dir(path), 0o755)
	level := "proof"
	var fnames []string
	var rejected []string
	paths := 0
	for _, f := range res.Funcs {
		fnames = append(fnames, shortKey(f.Key))
		paths += f.Paths
		if f.Rejected != "" {
			rejected = append(rejected, shortKey(f.Key)+": "+f.Rejected)
		}
	}
	var samples []interface{}
	n := 0
	for _, g := range res.Groups {
		if hasTag(g.Tags, res.Prop) && n < 6 {
			samples = append(samples, map[string]interface{}{"obligation": g.Name, "clause": g.Src, "at": g.Pos, "path_instances": g.Instances, "discharged": len(g.Failed) == 0})
			n++
		}
	}
	if len(samples) == 0 && len(res.Groups) > 0 {
		g := res.Groups[0]
		samples = append(samples, map[string]interface{}{"obligation": g.Name, "clause": g.Src})
	}
	var axioms []string
	for _, a := range w.cs.Axioms {
		axioms = append(axioms, a.Name+": "+a.Src)
	}
	var natives []string
	for k, v := range nativeDoc {
		natives = append(natives, k+": "+v)
	}
	sort.Strings(natives)
	trusted := []string{
		"the VC generator govc itself and go/ssa's translation of the source (x/tools v0.29.0)",
		"z3 5.1.0 (z3-new), z3 4.8.12, cvc5 1.0.3; a sat/unsat disagreement is reported as tool error",
		"sequential-handler assumption: each obligation is about one call running without interference (DESIGN.md section 3.1)",
		"callbacks into application-side interface implementations do not re-enter the library (DESIGN.md section 3.2)",
		"spec tables (edge/phase/terminal/postTrust) are a reading of SHIP 1.0.1 section 13.4 and of the property text",
	}
	for _, t := range res.Trusted {
		trusted = append(trusted, "trusted contract (body not verified): "+t)
	}
	assumptions := append([]string{}, natives...)
	for _, a := range axioms {
		assumptions = append(assumptions, "axiom "+a)
	}
	// contracts of library functions and of interfaces implemented outside the module (or whose in-repo implementation
	// is not tied to the interface contract by an `implements` clause) are assumed at their call sites
	assumedC := map[string]bool{}
	proved := map[string]bool{}
	for _, fc := range w.cs.Funcs {
		if fc.Implements != "" {
			proved[fc.Implements] = true
		}
	}
	for _, f := range res.Funcs {
		for _, k := range f.Used {
			if fc, ok := w.cs.Funcs[k]; ok && (fc.Kind == "lib" || fc.Kind == "iface" || fc.Kind == "functype") {
				label := "assumed " + fc.Kind + " contract: " + shortKey(strings.TrimPrefix(strings.TrimPrefix(k, "iface:"), "functype:"))
				if proved[k] {
					label += " (proved for the in-repo implementation that declares `implements`)"
				}
				assumedC[label] = true
			}
		}
	}
	for a := range assumedC {
		assumptions = append(assumptions, a)
	}
	assumptions = append(assumptions, "machine integers: mathematical Int with Go wrap-around modelled by an uninterpreted wrap function outside the type's range")
	assumptions = append(assumptions, "strings: SMT-LIB strings over bytes; unmodelled string functions are uninterpreted")
	for fn, a := range res.Abstracted {
		assumptions = append(assumptions, "abstracted in "+fn+": "+strings.Join(a, ", ")+" (nondeterministic choice / skip)")
	}
	sort.Strings(assumptions)
	perBackend := map[string]interface{}{}
	for k, v := range res.Stats.PerBackend {
		perBackend[k] = map[string]interface{}{"discharged": v, "seconds": round2(res.Stats.Secs[k])}
	}
	discharged := res.Discharged
	cov := map[string]interface{}{
		"obligations":              len(res.Groups),
		"discharged":               discharged,
		"obligation_path_instances": res.Instances,
		"relevant_to_property":     res.Relevant,
		"checker_cmd":              fmt.Sprintf("/verif/bin/govc check -prop %s -tier %s -repo %s", res.Prop, res.Tier, w.repo),
		"trusted_base":             trusted,
		"functions_under_contract": fnames,
		"inlined_functions":        res.Inlined,
		"rejected_functions":       rejected,
		"paths_explored":           paths,
		"covers_checked":           res.Covers,
		"lemmas":                   res.Lemmas,
		"per_backend":              perBackend,
		"solver_queries":           res.Stats.Queries,
		"load_seconds":             round2(res.LoadSecs),
		"known_findings":           res.Known,
		"known_finding_replays":    res.KnownReplays,
		"samples":                  samples,
		"contract_files":           w.cs.Files,
	}
	var vio []interface{}
	for _, v := range res.Violations {
		vio = append(vio, map[string]interface{}{"obligation": v.Obligation, "replay": v.Replay, "reproduced": !v.NoInput})
	}
	cov["violations"] = vio
	if len(res.Known) > 0 {
		// a property with an open finding is not proved as a whole: the level is reported as "other"
		level = "other"
		cov["explanation"] = fmt.Sprintf("Deductive verification of every clause of this property; %d of the %d obligations are NOT discharged and match entries of known-findings.txt (%s): the property does not hold on this tree for those clauses (each with a replay on the real code), all other obligations are discharged. Not reported as a proof because obligations != discharged.", len(res.Known), len(res.Groups), strings.Join(res.Known, ", "))
	}
	if res.Lockset != nil {
		cov["lock_discipline"] = res.Lockset
	}
	if res.Bounded != nil && boundedIsExtra[res.Prop] {
		cov["bounded_standins"] = res.Bounded
		cov["explanation"] = boundedExplanation[res.Prop]
		assumptions = append(assumptions, "the clause covered by the bounded stand-in is not counted as proved")
	} else if res.Bounded != nil {
		level = "other"
		cov["bounded_standins"] = res.Bounded
		cov["explanation"] = boundedExplanation[res.Prop]
		cov["evaluations"] = res.Bounded["evaluations"]
		cov["distinct_nontrivial"] = res.Bounded["distinct_nontrivial"]
		cov["rule"] = "deductive part: one obligation per contract clause and path; bounded part: inputs generated from the stated scope with a PRNG seeded by VERIF_SEED, de-duplicated by text"
		assumptions = append(assumptions, "bounded stand-in: nothing outside the stated scope is covered; its oracle is written from the property text")
	}
	ev := map[string]interface{}{
		"property_id": res.Prop,
		"tier":        res.Tier,
		"seed":        seed,
		"level":       level,
		"coverage":    cov,
		"assumptions": assumptions,
		"wall_s":      round2(res.Wall),
		"violations":  len(res.Violations),
	}
	writeJSON(path, ev)
}

func round2(f float64) float64 { return float64(int(f*100+0.5)) / 100 }

// writersObligations checks the `writers` declarations tagged with property p: a syntactic scan of every
// function of the module for stores to the declared field.
func (w *World) writersObligations(p string) []*Obligation {
	var out []*Obligation
	for _, wd := range w.cs.Writers {
		if !hasTag(wd.Tags, p) {
			continue
		}
		if wd.LockFree {
			out = append(out, w.lockFreeObligation(wd))
			continue
		}
		allowed := map[string]bool{}
		for _, f := range wd.Funcs {
			allowed[f] = true
		}
		var offenders []string
		seenAllowed := map[string]bool{}
		for key, fn := range w.funcs {
			if fn.Pkg == nil || !strings.HasPrefix(fn.Pkg.Pkg.Path(), modPath) || fn.Blocks == nil {
				continue
			}
			for _, b := range fn.Blocks {
				for _, ins := range b.Instrs {
					st, ok := ins.(*ssa.Store)
					if !ok {
						continue
					}
					fa, ok := st.Addr.(*ssa.FieldAddr)
					if !ok {
						continue
					}
					pt, ok := fa.X.Type().Underlying().(*types.Pointer)
					if !ok {
						continue
					}
					if _, ok := pt.Elem().Underlying().(*types.Struct); !ok {
						continue
					}
					if fieldClass(pt.Elem(), fa.Field) != wd.Field {
						continue
					}
					name := shortKey(key)
					// match by method/function name suffix
					okFn := false
					for a := range allowed {
						if strings.HasSuffix(name, a) {
							okFn = true
							seenAllowed[a] = true
						}
					}
					if !okFn {
						offenders = append(offenders, name+" ("+w.prog.Fset.Position(st.Pos()).String()+")")
					}
				}
			}
		}
		sort.Strings(offenders)
		_ = seenAllowed
		o := &Obligation{Name: "writers:" + shortKey(wd.Field), Fn: "writers", Kind: "writers", Tags: wd.Tags, Goal: "true", Src: "only " + strings.Join(wd.Funcs, ", ") + " store to " + shortKey(wd.Field), Status: "trivial"}
		if len(offenders) > 0 {
			o.Status, o.Solver = "sat", "syntactic"
			o.Output = "stores outside the declared writers: " + strings.Join(offenders, "; ")
			o.Goal = "false"
		}
		out = append(out, o)
	}
	out = append(out, w.neverClosedObligations(p)...)
	out = append(out, w.closeOnlyObligations(p)...)
	return out
}

// lockFreeObligation: `lockfree T.m in F1, F2` - none of the listed functions, nor any function of the module they
// (transitively, by static calls and closures) call, locks the mutex field T.m. Used where another function blocks
// on these functions while it holds T.m (Shutdown hands the stop token to the listener under the provider mutex).
func (w *World) lockFreeObligation(wd *WritersDecl) *Obligation {
	roots := map[*ssa.Function]bool{}
	found := map[string]bool{}
	for key, fn := range w.funcs {
		for _, f := range wd.Funcs {
			if strings.HasSuffix(shortKey(key), f) && fn.Blocks != nil {
				roots[fn] = true
				found[f] = true
			}
		}
	}
	var offenders []string
	for _, f := range wd.Funcs {
		if !found[f] {
			offenders = append(offenders, "function "+f+" not found")
		}
	}
	seen := map[*ssa.Function]bool{}
	var visit func(fn *ssa.Function, via string, depth int)
	visit = func(fn *ssa.Function, via string, depth int) {
		if fn == nil || seen[fn] || fn.Blocks == nil || depth > 8 {
			return
		}
		seen[fn] = true
		for _, b := range fn.Blocks {
			for _, ins := range b.Instrs {
				if mc, ok := ins.(*ssa.MakeClosure); ok {
					visit(mc.Fn.(*ssa.Function), via, depth+1)
				}
				ci, ok := ins.(ssa.CallInstruction)
				if !ok {
					continue
				}
				callee := ci.Common().StaticCallee()
				if callee == nil {
					continue
				}
				switch callee.String() {
				case "(*sync.Mutex).Lock", "(*sync.RWMutex).Lock", "(*sync.RWMutex).RLock":
					if fa, ok := ci.Common().Args[0].(*ssa.FieldAddr); ok {
						if pt, ok := fa.X.Type().Underlying().(*types.Pointer); ok {
							if _, ok := pt.Elem().Underlying().(*types.Struct); ok && fieldClass(pt.Elem(), fa.Field) == wd.Field {
								offenders = append(offenders, shortKey(funcKey(fn))+" locks it ("+w.prog.Fset.Position(ins.Pos()).String()+", reached from "+via+")")
							}
						}
					}
					continue
				}
				pk := callee.Pkg
				if pk == nil && callee.Parent() != nil {
					pk = callee.Parent().Pkg
				}
				if pk != nil && strings.HasPrefix(pk.Pkg.Path(), modPath) {
					visit(callee, via, depth+1)
				}
			}
		}
	}
	for fn := range roots {
		visit(fn, shortKey(funcKey(fn)), 0)
	}
	sort.Strings(offenders)
	o := &Obligation{Name: "lockfree:" + shortKey(wd.Field), Fn: "lockfree", Kind: "lockfree", Tags: wd.Tags, Goal: "true", Src: strings.Join(wd.Funcs, ", ") + " and what they call never lock " + shortKey(wd.Field), Status: "trivial"}
	if len(offenders) > 0 {
		o.Status, o.Solver, o.Goal = "sat", "syntactic", "false"
		o.Output = strings.Join(offenders, "; ")
	}
	return o
}

// neverClosedObligations: `neverclosed T.f` - no close() in the module is applied to a channel loaded from T.f.
func (w *World) neverClosedObligations(p string) []*Obligation {
	if p != "C08" && p != "C12" {
		return nil
	}
	var out []*Obligation
	for _, gd := range w.cs.Guards {
		if gd.Kind != "neverclosed" {
			continue
		}
		for _, f := range gd.Fields {
			var offenders []string
			for key, fn := range w.funcs {
				if fn.Blocks == nil {
					continue
				}
				pk := fn.Pkg
				if pk == nil && fn.Parent() != nil {
					pk = fn.Parent().Pkg
				}
				if pk == nil || !strings.HasPrefix(pk.Pkg.Path(), modPath) {
					continue
				}
				for _, b := range fn.Blocks {
					for _, ins := range b.Instrs {
						c, ok := ins.(ssa.CallInstruction)
						if !ok {
							continue
						}
						bi, ok := c.Common().Value.(*ssa.Builtin)
						if !ok || bi.Name() != "close" {
							continue
						}
						if u, ok := c.Common().Args[0].(*ssa.UnOp); ok {
							if fa, ok := u.X.(*ssa.FieldAddr); ok {
								if fieldClass(fa.X.Type().Underlying().(*types.Pointer).Elem(), fa.Field) == f {
									offenders = append(offenders, shortKey(key)+" ("+w.prog.Fset.Position(ins.Pos()).String()+")")
								}
							}
						}
					}
				}
			}
			sort.Strings(offenders)
			o := &Obligation{Name: "neverclosed:" + shortKey(f), Fn: "neverclosed", Kind: "neverclosed", Tags: []string{"C08", "C12"}, Goal: "true", Src: "no close() is applied to the channel in " + shortKey(f), Status: "trivial"}
			if len(offenders) > 0 {
				o.Status, o.Solver, o.Goal = "sat", "syntactic", "false"
				o.Output = "close() found: " + strings.Join(offenders, "; ")
			}
			out = append(out, o)
		}
	}
	return out
}

// closeOnlyObligations: `closeonly T.f` - no send in the module targets a channel loaded from T.f (so a receive from
// it completes only because it was closed).
func (w *World) closeOnlyObligations(p string) []*Obligation {
	if p != "C08" && p != "C12" && p != "C06" {
		return nil
	}
	var out []*Obligation
	fromField := func(v ssa.Value, f string) bool {
		if u, ok := v.(*ssa.UnOp); ok {
			if fa, ok := u.X.(*ssa.FieldAddr); ok {
				return fieldClass(fa.X.Type().Underlying().(*types.Pointer).Elem(), fa.Field) == f
			}
		}
		return false
	}
	for _, gd := range w.cs.Guards {
		if gd.Kind != "closeonly" {
			continue
		}
		for _, f := range gd.Fields {
			var offenders []string
			for key, fn := range w.funcs {
				if fn.Blocks == nil {
					continue
				}
				pk := fn.Pkg
				if pk == nil && fn.Parent() != nil {
					pk = fn.Parent().Pkg
				}
				if pk == nil || !strings.HasPrefix(pk.Pkg.Path(), modPath) {
					continue
				}
				for _, b := range fn.Blocks {
					for _, ins := range b.Instrs {
						switch in := ins.(type) {
						case *ssa.Send:
							if fromField(in.Chan, f) {
								offenders = append(offenders, shortKey(key)+" ("+w.prog.Fset.Position(ins.Pos()).String()+")")
							}
						case *ssa.Select:
							for _, ss := range in.States {
								if ss.Dir == types.SendOnly && fromField(ss.Chan, f) {
									offenders = append(offenders, shortKey(key)+" ("+w.prog.Fset.Position(ins.Pos()).String()+")")
								}
							}
						}
					}
				}
			}
			sort.Strings(offenders)
			o := &Obligation{Name: "closeonly:" + shortKey(f), Fn: "closeonly", Kind: "closeonly", Tags: []string{"C08", "C12", "C06"}, Goal: "true", Src: "nothing is sent on the channel in " + shortKey(f) + " (a receive from it means it was closed)", Status: "trivial"}
			if len(offenders) > 0 {
				o.Status, o.Solver, o.Goal = "sat", "syntactic", "false"
				o.Output = "send found: " + strings.Join(offenders, "; ")
			}
			out = append(out, o)
		}
	}
	return out
}

var boundedTests = map[string]string{"C07": "TestC07,TestC07Wire", "C16": "TestC16", "C17": "TestC17,TestC17Hub"}

// properties whose claim is a proof and whose bounded stand-in only covers a clause that is explicitly NOT claimed as proved
var boundedIsExtra = map[string]bool{"C17": true}

var boundedExplanation = map[string]string{
	"C07": "Level other: the framing (parseMessage) is under contract, but the EEBUS transform itself (ship.JsonIntoEEBUSJson / ship.JsonFromEEBUSJson: encoding/json, go-ordered-json, textual replaces) is outside the verifier's reach and is covered only by a BOUNDED stand-in: the real functions run on a seeded sample of a finite document scope against an oracle written from the property text (member order, number literals as text, SHIP shape). Failing documents are classified by cause; causes listed in known-findings.txt are KNOWN-FINDINGs, a failing document showing no listed cause is a violation. Nothing here is counted as proved for the transform.",
	"C17": "The proof covers the key-set step and the fields of a new entry. The address clause (union, no duplicates, no IPv6 link-local) is covered only by a BOUNDED stand-in, labelled bounded and not counted as proved: sequences of 1-5 add/update/remove events over two services with addresses in both encodings are run through the real processMdnsEntry and compared with a model written from the property text.",
	"C16": "Level other: length bounds, TXT record structure and entry field mapping are proved deductively (obligations listed); the string algorithms (UTF-8 validity of the 32-byte cut, '=' in values, ';' in QR fields, category parsing, QR parse-back) are covered only by a BOUNDED stand-in on the real functions over strings built around the 32-byte boundary.",
}

// isKnownFinding: the obligation name matches a `finding:` entry (of property p, or of any property if p is "").
func (w *World) isKnownFinding(name, p string) bool {
	for _, kf := range w.knownObl {
		if (p == "" || kf.Property == p) && globMatch(kf.Obligation, name) {
			return true
		}
	}
	return false
}
