package main

import (
	"fmt"
	"go/types"
	"sort"
	"strings"
)

type Heap struct {
	m     map[string]string
	epoch int
}

func (h Heap) clone() Heap {
	m := make(map[string]string, len(h.m))
	for k, v := range h.m {
		m[k] = v
	}
	return Heap{m, h.epoch}
}

type State struct {
	x        *Exec
	log      []string
	heap     map[string]string // current heap: class -> term ; key "" holds epoch marker
	alloc    string
	locks    map[string]int
	conc     map[string]Val
	known    map[string]bool
	declared map[string]bool
	freshRef map[string]bool
	trace    []string
	ctr      *int
	lockLog  []string
	spawned  []string
	called   map[string]bool // names of the callees called so far on this path (spec builtin called(name))
	appendCond map[string]string // slice term -> condition under which an append result does not share memory that existed at entry
	cells    map[string]string // private local variable cells of the function under verification: ref -> heap class
	oldHeap  map[string]string // if set: what old() denotes on this path (the state after the last interference point)
	ncalls   map[string]int  // number of calls of each callee on this path (spec builtin callcount(name))
	lastRet  map[string]Val  // result of the most recent call of each callee on this path (spec builtin lastresult(name))
	last     map[string]Val // address -> value most recently stored there (valid until the class is written elsewhere)
}

func (st *State) clone() *State {
	n := &State{x: st.x, alloc: st.alloc, ctr: st.ctr, oldHeap: st.oldHeap}
	n.log = make([]string, len(st.log), len(st.log)+64)
	copy(n.log, st.log)
	n.heap = copyMap(st.heap)
	n.locks = map[string]int{}
	for k, v := range st.locks {
		n.locks[k] = v
	}
	n.conc = map[string]Val{}
	for k, v := range st.conc {
		n.conc[k] = v
	}
	n.known = map[string]bool{}
	for k, v := range st.known {
		n.known[k] = v
	}
	n.declared = map[string]bool{}
	for k, v := range st.declared {
		n.declared[k] = v
	}
	n.freshRef = map[string]bool{}
	for k, v := range st.freshRef {
		n.freshRef[k] = v
	}
	n.last = map[string]Val{}
	for k, v := range st.last {
		n.last[k] = v
	}
	n.trace = append([]string{}, st.trace...)
	n.lockLog = append([]string{}, st.lockLog...)
	n.spawned = append([]string{}, st.spawned...)
	n.called = map[string]bool{}
	n.lastRet = map[string]Val{}
	n.appendCond = map[string]string{}
	for k, v := range st.appendCond {
		n.appendCond[k] = v
	}
	n.cells = map[string]string{}
	for k, v := range st.cells {
		n.cells[k] = v
	}
	n.ncalls = map[string]int{}
	for k, v := range st.ncalls {
		n.ncalls[k] = v
	}
	for k, v := range st.lastRet {
		n.lastRet[k] = v
	}
	for k, v := range st.called {
		n.called[k] = v
	}
	return n
}

func copyMap(m map[string]string) map[string]string {
	n := make(map[string]string, len(m))
	for k, v := range m {
		n[k] = v
	}
	return n
}

func (st *State) fresh(hint, sort string) string {
	*st.ctr++
	name := fmt.Sprintf("%s!%d", sanitize(hint), *st.ctr)
	st.log = append(st.log, fmt.Sprintf("(declare-const %s %s)", name, sort))
	return name
}

func (st *State) define(hint, sort, body string) string {
	*st.ctr++
	name := fmt.Sprintf("%s!%d", sanitize(hint), *st.ctr)
	st.log = append(st.log, fmt.Sprintf("(define-fun %s () %s %s)", name, sort, body))
	return name
}

func sanitize(s string) string {
	var b strings.Builder
	for _, c := range s {
		if c >= 'a' && c <= 'z' || c >= 'A' && c <= 'Z' || c >= '0' && c <= '9' || c == '_' {
			b.WriteRune(c)
		} else {
			b.WriteByte('_')
		}
	}
	if b.Len() == 0 {
		return "v"
	}
	return b.String()
}

func (st *State) assume(t string) {
	if t == "true" || t == "" {
		return
	}
	st.log = append(st.log, "(assert "+t+")")
}

// heapInit returns (declaring if needed) the initial heap term of a class for heap map h.
func (st *State) heapInit(h map[string]string, class string) string {
	srt, ok := st.x.w.classes[class]
	if !ok {
		panic(rejectErr("unknown heap class " + class))
	}
	ep := h["\x00epoch"]
	name := quoteSym("H" + ep + ":" + class)
	if !st.declared[name] {
		st.declared[name] = true
		st.log = append(st.log, fmt.Sprintf("(declare-const %s %s)", name, srt))
	}
	// Do not write into h: an untouched class must resolve identically in snapshots.
	return name
}

func (st *State) hget(class string) string {
	if t, ok := st.heap[class]; ok {
		return t
	}
	return st.heapInit(st.heap, class)
}

func (st *State) hset(class, term string) {
	srt := st.x.w.classes[class]
	st.heap[class] = st.define("H_"+shortClass(class), srt, term)
	st.forget(class)
}

// forget drops remembered stores into a class (another write may alias them).
func (st *State) forget(class string) {
	for k := range st.last {
		if strings.HasPrefix(k, class+"@") {
			delete(st.last, k)
		}
	}
}

func shortClass(c string) string {
	if i := strings.LastIndex(c, "/"); i >= 0 {
		c = c[i+1:]
	}
	return c
}

func (st *State) snapshot() map[string]string { return copyMap(st.heap) }

// havocAll forgets every mutable heap class (new epoch), keeping immutable field classes.
func (st *State) havocAll() { st.havocAllExcept(nil) }

// havocAllExcept forgets every mutable heap class except the fields of the listed struct types.
func (st *State) havocAllExcept(except []string) {
	*st.ctr++
	nh := map[string]string{"\x00epoch": fmt.Sprintf("%s.%d", st.heap["\x00epoch"], *st.ctr)}
	for c := range st.x.w.classes {
		keep := st.x.w.classImm[c]
		for _, t := range except {
			if strings.HasPrefix(c, t+".") {
				keep = true
			}
		}
		if keep {
			nh[c] = st.hget(c)
		}
	}
	// private cells of local variables (captured by closures that only read them) are out of reach of callees
	type kept struct{ ref, class, old string }
	var cells []kept
	for ref, c := range st.cells {
		if _, still := nh[c]; !still {
			cells = append(cells, kept{ref, c, st.hget(c)})
		}
	}
	st.heap = nh
	nl := map[string]Val{}
	for k, v := range st.last {
		if strings.HasPrefix(k, "alias@") || strings.HasPrefix(k, "slice@") {
			nl[k] = v
		}
	}
	st.last = nl
	sort.Slice(cells, func(i, j int) bool { return cells[i].ref < cells[j].ref })
	for _, c := range cells {
		st.assume("(= (select " + st.hget(c.class) + " " + c.ref + ") (select " + c.old + " " + c.ref + "))")
	}
}

func (st *State) havocClass(class string) {
	srt := st.x.w.classes[class]
	st.heap[class] = st.fresh("H_"+shortClass(class), srt)
	st.forget(class)
}

// ---- type invariants ----

func (st *State) typeInv(term string, t types.Type) string {
	if lo, hi, ok := intRange(t); ok {
		return sAnd("(<= "+lo+" "+term+")", "(<= "+term+" "+hi+")")
	}
	switch t.Underlying().(type) {
	case *types.Pointer, *types.Map, *types.Chan, *types.Signature:
		return sAnd("(<= 0 "+term+")", "(<= "+term+" "+st.alloc+")")
	case *types.Interface:
		return sAnd("(<= 0 (itag "+term+"))", "(<= 0 (iref "+term+"))", "(<= (iref "+term+") "+st.alloc+")",
			"(=> (= (itag "+term+") 0) (= (iref "+term+") 0))")
	case *types.Slice:
		return sAnd("(<= 0 (sarr "+term+"))", "(<= (sarr "+term+") "+st.alloc+")", "(<= 0 (soff "+term+"))", "(<= 0 (slen "+term+"))",
			"(<= (slen "+term+") (scap "+term+"))", "(<= (scap "+term+") 9223372036854775807)", "(=> (= (sarr "+term+") 0) (= (scap "+term+") 0))")
	}
	return "true"
}

func (st *State) assumeTypeInv(v Val) {
	if v.S == "" || v.T == nil {
		for _, f := range v.Fs {
			st.assumeTypeInv(f)
		}
		return
	}
	if isIntLit(v.S) || isStrLit(v.S) || v.S == "true" || v.S == "false" {
		return
	}
	if strings.Contains(v.S, "q!") {
		return // mentions a bound variable of a specification quantifier: not a closed term
	}
	key := v.S + "@" + st.alloc + ":" + sortOf(v.T)
	if st.known[key] {
		return
	}
	st.known[key] = true
	st.assume(st.typeInv(v.S, v.T))
}

// freshVal creates an unconstrained value of Go type t (with type invariants assumed).
func (st *State) freshVal(hint string, t types.Type) Val {
	switch u := t.Underlying().(type) {
	case *types.Struct:
		v := Val{T: t}
		for i := 0; i < u.NumFields(); i++ {
			v.Fs = append(v.Fs, st.freshVal(hint+"_"+u.Field(i).Name(), u.Field(i).Type()))
		}
		return v
	case *types.Tuple:
		v := Val{T: t}
		for i := 0; i < u.Len(); i++ {
			v.Fs = append(v.Fs, st.freshVal(fmt.Sprintf("%s_%d", hint, i), u.At(i).Type()))
		}
		return v
	case *types.Array:
		v := Val{T: t, BI: "array"}
		if es := sortOf(u.Elem()); es != "" {
			v.Row = st.fresh(hint+"_row", "(Array Int "+es+")")
		}
		return v
	}
	srt := sortOf(t)
	if srt == "" {
		panic(rejectErr("no SMT sort for type " + t.String()))
	}
	v := Val{T: t, S: st.fresh(hint, srt), Sort: srt}
	st.assumeTypeInv(v)
	return v
}

func (st *State) zeroVal(t types.Type) Val {
	switch u := t.Underlying().(type) {
	case *types.Struct:
		v := Val{T: t}
		for i := 0; i < u.NumFields(); i++ {
			v.Fs = append(v.Fs, st.zeroVal(u.Field(i).Type()))
		}
		return v
	case *types.Array:
		return Val{T: t, BI: "array"} // arrays embedded in structs are left unconstrained (over-approximation)
	}
	switch sortOf(t) {
	case "Bool":
		return Val{T: t, S: "false", Sort: "Bool"}
	case "Int":
		return Val{T: t, S: "0", Sort: "Int"}
	case "String":
		return Val{T: t, S: `""`, Sort: "String"}
	case "Real":
		return Val{T: t, S: "0.0", Sort: "Real"}
	case "Iface":
		return Val{T: t, S: "(mk-iface 0 0)", Sort: "Iface"}
	case "Slice":
		return Val{T: t, S: "(mk-slice 0 0 0 0)", Sort: "Slice"}
	}
	panic(rejectErr("no zero value for " + t.String()))
}

// ---- allocation ----

func (st *State) newRef(hint string) string {
	r := st.fresh(hint, "Int")
	st.assume("(> " + r + " " + st.alloc + ")")
	st.alloc = st.define("alloc", "Int", r)
	st.freshRef[r] = true
	// ghost state of a fresh object starts at its default value
	for _, c := range st.x.w.classOrder {
		if !strings.HasPrefix(c, "ghost:") {
			continue
		}
		var d string
		switch elemSortOfArray(st.x.w.classes[c]) {
		case "Bool":
			d = "false"
		case "Int":
			d = "0"
		case "String":
			d = `""`
		case "Iface":
			d = "(mk-iface 0 0)"
		default:
			continue
		}
		st.assume("(= (select " + st.hget(c) + " " + r + ") " + d + ")")
	}
	return r
}

// growAlloc models allocations made by a callee.
func (st *State) growAlloc() {
	n := st.fresh("alloc", "Int")
	st.assume("(>= " + n + " " + st.alloc + ")")
	st.alloc = n
}

// allocObject allocates a fresh object of type t and returns a pointer value to it (zero initialised if zero).
func (st *State) allocObject(t types.Type, hint string, zero bool) Val {
	ptrT := types.NewPointer(t)
	switch u := t.Underlying().(type) {
	case *types.Struct:
		ref := st.newRef(hint)
		a := &Addr{Kind: "obj", Ref: ref, Elem: t}
		st.bindSubObjects(a)
		if zero {
			st.storeAt(a, st.zeroVal(t), t)
		}
		return Val{T: ptrT, S: ref, Sort: "Int", A: a}
	case *types.Array:
		ref := st.newRef(hint)
		a := &Addr{Kind: "arr", Ref: ref, Elem: t}
		if zero {
			if u.Len() > 64 {
				panic(rejectErr("large array allocation"))
			}
			for i := int64(0); i < u.Len(); i++ {
				st.storeAt(st.elemAddrOf(ref, sInt(i), u.Elem()), st.zeroVal(u.Elem()), u.Elem())
			}
		}
		return Val{T: ptrT, S: ref, Sort: "Int", A: a}
	}
	ref := st.newRef(hint)
	a := &Addr{Kind: "mem", Class: st.memClass(t), Ref: ref, Elem: t}
	if zero {
		st.storeAt(a, st.zeroVal(t), t)
	}
	return Val{T: ptrT, S: ref, Sort: "Int", A: a}
}

// bindSubObjects gives embedded struct fields of a fresh object fresh identities.
func (st *State) bindSubObjects(a *Addr) {
	s := a.Elem.Underlying().(*types.Struct)
	for i := 0; i < s.NumFields(); i++ {
		ft := s.Field(i).Type()
		switch ft.Underlying().(type) {
		case *types.Struct, *types.Array:
			sub := st.fieldAddr(a, i)
			r := st.newRef("sub")
			st.assume(sEq(sub.Ref, r))
			st.last["alias@"+sub.Ref] = Val{S: r}
			if _, ok := ft.Underlying().(*types.Struct); ok {
				st.bindSubObjects(&Addr{Kind: "obj", Ref: r, Elem: ft})
			}
		}
	}
}

func (st *State) memClass(t types.Type) string {
	c := "mem:" + canonType(t)
	srt := sortOf(t)
	if srt == "" {
		panic(rejectErr("memory cell of composite type " + t.String()))
	}
	st.x.w.declClass(c, "(Array Int "+srt+")")
	return c
}

func (st *State) elemClass(t types.Type) string {
	c := "elems:" + canonType(t)
	srt := sortOf(t)
	if srt == "" {
		panic(rejectErr("slice element of composite type " + t.String()))
	}
	st.x.w.declClass(c, "(Array Int (Array Int "+srt+"))")
	return c
}

func (st *State) mapClasses(m *types.Map) (string, string) {
	ks, vs := sortOf(m.Key()), sortOf(m.Elem())
	if ks == "" || vs == "" {
		panic(rejectErr("map with composite key/value: " + m.String()))
	}
	k := canonType(m.Key()) + ":" + canonType(m.Elem())
	p, v := "mapP:"+k, "mapV:"+k
	st.x.w.declClass(p, "(Array Int (Array "+ks+" Bool))")
	st.x.w.declClass(v, "(Array Int (Array "+ks+" "+vs+"))")
	return p, v
}

// ---- addresses ----

func (st *State) fieldAddr(base *Addr, i int) *Addr {
	if base.Kind != "obj" {
		panic(rejectErr("field address of non-object"))
	}
	s := base.Elem.Underlying().(*types.Struct)
	ft := s.Field(i).Type()
	cls := fieldClass(base.Elem, i)
	switch ft.Underlying().(type) {
	case *types.Struct, *types.Array:
		fn := quoteSym("sub:" + cls)
		st.x.w.declUF(fn, "(declare-fun "+fn+" (Int) Int)")
		kind := "obj"
		if _, ok := ft.Underlying().(*types.Array); ok {
			kind = "arr"
		}
		ref := "(" + fn + " " + base.Ref + ")"
		if al, ok := st.last["alias@"+ref]; ok {
			ref = al.S // embedded object of an object allocated on this path: its own fresh identity
		} else {
			st.derivedNotFresh(ref, base.Ref)
		}
		return &Addr{Kind: kind, Ref: ref, Elem: ft}
	}
	srt := sortOf(ft)
	if srt == "" {
		panic(rejectErr("field of unsupported type " + ft.String()))
	}
	st.x.w.declClass(cls, "(Array Int "+srt+")")
	if st.x.w.cs.Immutable[cls] {
		st.x.w.classImm[cls] = true
	}
	return &Addr{Kind: "fld", Class: cls, Ref: base.Ref, Elem: ft}
}

func (st *State) elemAddrOf(arr, idx string, et types.Type) *Addr {
	switch et.Underlying().(type) {
	case *types.Struct:
		fn := quoteSym("elemref:" + canonType(et))
		st.x.w.declUF(fn, "(declare-fun "+fn+" (Int Int) Int)")
		ref := "(" + fn + " " + arr + " " + idx + ")"
		if al, ok := st.last["alias@"+ref]; ok {
			ref = al.S
		} else if st.freshRef[arr] && !strings.Contains(ref, "q!") {
			// element of an array allocated on this path: give it its own fresh identity
			r := st.newRef("elem")
			st.assume(sEq(ref, r))
			st.last["alias@"+ref] = Val{S: r}
			if _, isS := et.Underlying().(*types.Struct); isS {
				st.bindSubObjects(&Addr{Kind: "obj", Ref: r, Elem: et})
			}
			ref = r
		} else {
			st.derivedNotFresh(ref, arr)
		}
		return &Addr{Kind: "obj", Ref: ref, Elem: et}
	case *types.Array:
		panic(rejectErr("array of arrays"))
	}
	return &Addr{Kind: "elem", Class: st.elemClass(et), Ref: arr, Idx: idx, Elem: et}
}

func (st *State) elemAddr(slice Val, idx string, et types.Type) *Addr {
	return st.elemAddrOf("(sarr "+slice.S+")", "(+ (soff "+slice.S+") "+idx+")", et)
}

// addrOfPtr resolves a pointer value to an address.
func (st *State) addrOfPtr(v Val) *Addr {
	if v.A != nil {
		return v.A
	}
	p, ok := v.T.Underlying().(*types.Pointer)
	if !ok {
		panic(rejectErr("dereference of non-pointer " + v.T.String()))
	}
	switch p.Elem().Underlying().(type) {
	case *types.Struct:
		return &Addr{Kind: "obj", Ref: v.S, Elem: p.Elem()}
	case *types.Array:
		return &Addr{Kind: "arr", Ref: v.S, Elem: p.Elem()}
	}
	return &Addr{Kind: "mem", Class: st.memClass(p.Elem()), Ref: v.S, Elem: p.Elem()}
}

// ptrTerm gives the Int term representing a pointer value (needed when it is stored or passed opaquely).
func (st *State) ptrTerm(v Val) string {
	if v.S != "" {
		return v.S
	}
	if v.A != nil {
		switch v.A.Kind {
		case "obj", "arr", "mem":
			return v.A.Ref
		case "fld":
			fn := quoteSym("fldptr:" + v.A.Class)
			st.x.w.declUF(fn, "(declare-fun "+fn+" (Int) Int)")
			st.x.interior[v.A.Class] = true
			return "(" + fn + " " + v.A.Ref + ")"
		case "elem":
			fn := quoteSym("elemptr:" + v.A.Class)
			st.x.w.declUF(fn, "(declare-fun "+fn+" (Int Int) Int)")
			st.x.interior[v.A.Class] = true
			return "(" + fn + " " + v.A.Ref + " " + v.A.Idx + ")"
		}
	}
	panic(rejectErr("pointer without term"))
}

// ---- loads and stores ----

func (st *State) loadFrom(h map[string]string, a *Addr, t types.Type) Val {
	get := func(class string) string {
		if x, ok := h[class]; ok {
			return x
		}
		return st.heapInit(h, class)
	}
	switch a.Kind {
	case "obj":
		s := a.Elem.Underlying().(*types.Struct)
		v := Val{T: t}
		for i := 0; i < s.NumFields(); i++ {
			fa := st.fieldAddr(a, i)
			v.Fs = append(v.Fs, st.loadFrom(h, fa, s.Field(i).Type()))
		}
		return v
	case "arr":
		v := Val{T: t, BI: "array"}
		if at, ok := a.Elem.Underlying().(*types.Array); ok && sortOf(at.Elem()) != "" {
			v.Row = "(select " + get(st.elemClass(at.Elem())) + " " + a.Ref + ")"
		}
		return v
	case "fld", "mem":
		srt := sortOf(a.Elem)
		v := Val{T: t, S: "(select " + get(a.Class) + " " + a.Ref + ")", Sort: srt}
		st.assumeTypeInv(v)
		return v
	case "elem":
		srt := sortOf(a.Elem)
		v := Val{T: t, S: "(select (select " + get(a.Class) + " " + a.Ref + ") " + a.Idx + ")", Sort: srt}
		st.assumeTypeInv(v)
		return v
	}
	panic(rejectErr("load from address kind " + a.Kind))
}

func (st *State) load(a *Addr, t types.Type) Val {
	if a.Kind == "fld" || a.Kind == "mem" {
		if v, ok := st.last[a.Class+"@"+a.Ref]; ok {
			v.T = t
			return v
		}
	}
	if a.Kind == "elem" {
		if v, ok := st.last[a.Class+"@"+a.Ref+"@"+a.Idx]; ok {
			v.T = t
			return v
		}
	}
	return st.loadFrom(st.heap, a, t)
}

func (st *State) valTerm(v Val) string {
	if v.S != "" {
		return v.S
	}
	if v.A != nil {
		return st.ptrTerm(v)
	}
	if v.Clo != nil || v.Fn != nil {
		return st.x.funcTerm(st, v)
	}
	panic(rejectErr("value without SMT term of type " + fmt.Sprint(v.T)))
}

func (st *State) storeAt(a *Addr, v Val, t types.Type) {
	switch a.Kind {
	case "obj":
		s := a.Elem.Underlying().(*types.Struct)
		if len(v.Fs) != s.NumFields() {
			panic(rejectErr("struct store with non-struct value"))
		}
		for i := 0; i < s.NumFields(); i++ {
			st.storeAt(st.fieldAddr(a, i), v.Fs[i], s.Field(i).Type())
		}
	case "fld", "mem":
		st.x.noteWrite(st, a)
		st.hset(a.Class, "(store "+st.hget(a.Class)+" "+a.Ref+" "+st.valTerm(v)+")")
		if v.S != "" {
			st.last[a.Class+"@"+a.Ref] = v
		}
	case "elem":
		h := st.hget(a.Class)
		// remembered elements of the SAME array at other literal indices stay valid across this store
		keep := map[string]Val{}
		if isIntLit(a.Idx) {
			pre := a.Class + "@" + a.Ref + "@"
			for k, kv := range st.last {
				if strings.HasPrefix(k, pre) && isIntLit(k[len(pre):]) && k[len(pre):] != a.Idx {
					keep[k] = kv
				}
			}
		}
		st.hset(a.Class, "(store "+h+" "+a.Ref+" (store (select "+h+" "+a.Ref+") "+a.Idx+" "+st.valTerm(v)+"))")
		for k, kv := range keep {
			st.last[k] = kv
		}
		if v.S != "" {
			st.last[a.Class+"@"+a.Ref+"@"+a.Idx] = v
		}
	case "arr":
		if v.BI == "array" {
			// whole-array store: the row of this array becomes the value's contents (or unconstrained)
			at, ok := a.Elem.Underlying().(*types.Array)
			if !ok || sortOf(at.Elem()) == "" {
				return // arrays of composite elements: the elements are objects of their own
			}
			cls := st.elemClass(at.Elem())
			row := v.Row
			if row == "" {
				row = st.fresh("arr_row", "(Array Int "+sortOf(at.Elem())+")")
			}
			st.x.noteWrite(st, &Addr{Kind: "elem", Class: cls, Ref: a.Ref, Elem: at.Elem()})
			st.hset(cls, "(store "+st.hget(cls)+" "+a.Ref+" "+row+")")
			for k := range st.last {
				if strings.HasPrefix(k, cls+"@"+a.Ref+"@") {
					delete(st.last, k)
				}
			}
			return
		}
		panic(rejectErr("store of array value"))
	default:
		panic(rejectErr("store to address kind " + a.Kind))
	}
}

// derivedNotFresh: an embedded / element object of an object that existed before is itself not a fresh
// allocation (it cannot alias anything allocated later on this path).
func (st *State) derivedNotFresh(ref, base string) {
	if st.freshRef[base] || strings.Contains(ref, "q!") {
		return
	}
	key := "derived:" + ref
	if st.known[key] {
		return
	}
	st.known[key] = true
	st.assume("(and (<= 0 " + ref + ") (<= " + ref + " " + st.alloc + "))")
	// ... and differs from every object allocated earlier on this path
	var ds []string
	for r := range st.freshRef {
		ds = append(ds, sNot(sEq(ref, r)))
	}
	sort.Strings(ds)
	st.assume(sAnd(ds...))
}
