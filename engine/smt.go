package main

import (
	"bytes"
	"context"
	"fmt"
	"os"
	"os/exec"
	"strings"
	"sync"
	"time"
)

// ---- small term helpers (terms are SMT-LIB strings) ----

func sAnd(xs ...string) string {
	var ys []string
	for _, x := range xs {
		if x == "true" || x == "" {
			continue
		}
		if x == "false" {
			return "false"
		}
		ys = append(ys, x)
	}
	switch len(ys) {
	case 0:
		return "true"
	case 1:
		return ys[0]
	}
	return "(and " + strings.Join(ys, " ") + ")"
}
func sOr(xs ...string) string {
	var ys []string
	for _, x := range xs {
		if x == "false" || x == "" {
			continue
		}
		if x == "true" {
			return "true"
		}
		ys = append(ys, x)
	}
	switch len(ys) {
	case 0:
		return "false"
	case 1:
		return ys[0]
	}
	return "(or " + strings.Join(ys, " ") + ")"
}
func sNot(x string) string {
	switch x {
	case "true":
		return "false"
	case "false":
		return "true"
	}
	if strings.HasPrefix(x, "(not ") && balanced(x[5:len(x)-1]) {
		return x[5 : len(x)-1]
	}
	return "(not " + x + ")"
}
func balanced(s string) bool {
	d := 0
	inq := false
	for i := 0; i < len(s); i++ {
		c := s[i]
		if c == '"' {
			inq = !inq
		}
		if inq {
			continue
		}
		if c == '(' {
			d++
		}
		if c == ')' {
			d--
			if d < 0 {
				return false
			}
		}
	}
	return d == 0
}
func sImp(a, b string) string {
	if a == "true" {
		return b
	}
	if a == "false" || b == "true" {
		return "true"
	}
	return "(=> " + a + " " + b + ")"
}
func sEq(a, b string) string {
	if a == b {
		return "true"
	}
	if isIntLit(a) && isIntLit(b) {
		return "false"
	}
	if isStrLit(a) && isStrLit(b) {
		return "false"
	}
	return "(= " + a + " " + b + ")"
}
func sIte(c, a, b string) string {
	if c == "true" {
		return a
	}
	if c == "false" {
		return b
	}
	if a == b {
		return a
	}
	return "(ite " + c + " " + a + " " + b + ")"
}
func isIntLit(s string) bool {
	if s == "" {
		return false
	}
	if strings.HasPrefix(s, "(- ") && strings.HasSuffix(s, ")") {
		s = s[3 : len(s)-1]
	}
	for _, c := range s {
		if c < '0' || c > '9' {
			return false
		}
	}
	return true
}
func isStrLit(s string) bool { return len(s) >= 2 && s[0] == '"' && s[len(s)-1] == '"' }
func sInt(n int64) string {
	if n < 0 {
		return fmt.Sprintf("(- %d)", -n)
	}
	return fmt.Sprintf("%d", n)
}
func sIntStr(s string) string {
	if strings.HasPrefix(s, "-") {
		return "(- " + s[1:] + ")"
	}
	return s
}

// sStr renders a Go string (bytes 0..255) as an SMT-LIB string literal.
func sStr(s string) string {
	var b strings.Builder
	b.WriteByte('"')
	for i := 0; i < len(s); i++ {
		c := s[i]
		switch {
		case c == '"':
			b.WriteString(`""`)
		case c == '\\':
			b.WriteString(`\u{5c}`)
		case c >= 0x20 && c < 0x7f:
			b.WriteByte(c)
		default:
			fmt.Fprintf(&b, `\u{%x}`, c)
		}
	}
	b.WriteByte('"')
	return b.String()
}

func quoteSym(s string) string {
	simple := true
	for _, c := range s {
		if !(c >= 'a' && c <= 'z' || c >= 'A' && c <= 'Z' || c >= '0' && c <= '9' || c == '_' || c == '!' || c == '.' || c == '$') {
			simple = false
		}
	}
	if simple {
		return s
	}
	s = strings.ReplaceAll(s, "|", "!")
	s = strings.ReplaceAll(s, "\\", "!")
	return "|" + s + "|"
}

// ---- solver running ----

type SolverResult struct {
	Solver string
	Status string // unsat, sat, unknown, timeout, error
	Output string
	Secs   float64
}

var solverCmds = map[string][]string{
	"z3-new": {"z3-new", "-in", "-smt2"},
	"z3":     {"z3", "-in", "-smt2"},
	"cvc5":   {"cvc5", "--lang", "smt2", "--incremental", "--produce-models"},
}

func solverTimeoutArgs(name string, ms int) []string {
	switch name {
	case "cvc5":
		return []string{fmt.Sprintf("--tlimit-per=%d", ms)}
	default:
		return []string{fmt.Sprintf("-t:%d", ms)}
	}
}

func runSolver(name, script string, timeoutMs int) SolverResult {
	return runSolverCtx(context.Background(), name, script, timeoutMs)
}

func runSolverCtx(parent context.Context, name, script string, timeoutMs int) SolverResult {
	cmdline := append([]string{}, solverCmds[name]...)
	cmdline = append(cmdline, solverTimeoutArgs(name, timeoutMs)...)
	ctx, cancel := context.WithTimeout(parent, time.Duration(timeoutMs+3000)*time.Millisecond*4)
	defer cancel()
	cmd := exec.CommandContext(ctx, cmdline[0], cmdline[1:]...)
	cmd.Stdin = strings.NewReader(script)
	var out bytes.Buffer
	cmd.Stdout = &out
	cmd.Stderr = &out
	t0 := time.Now()
	err := cmd.Run()
	secs := time.Since(t0).Seconds()
	res := SolverResult{Solver: name, Output: out.String(), Secs: secs}
	_ = err
	return res
}

// runBatch runs a script containing many (check-sat) commands and returns one status per check.
func runBatch(name, script string, perQueryMs int) ([]string, string, float64) {
	// a batch normally answers in a second or two; a solver that ignores its per-query limit (string theory) is
	// stopped after 2x that limit (at least 15 s) - what it has not answered by then goes to the individual race
	d := time.Duration(perQueryMs) * 2 * time.Millisecond
	if d < 15*time.Second {
		d = 15 * time.Second
	}
	ctx, cancel := context.WithTimeout(context.Background(), d)
	defer cancel()
	r := runSolverCtx(ctx, name, script, perQueryMs)
	var sts []string
	for _, ln := range strings.Split(r.Output, "\n") {
		ln = strings.TrimSpace(ln)
		switch ln {
		case "sat", "unsat", "unknown", "timeout":
			sts = append(sts, ln)
		}
	}
	return sts, r.Output, r.Secs
}

// raceSingle runs one query (single check-sat, then get-model) on all solvers and returns the results.
func raceSingle(script string, timeoutMs int, solvers []string) []SolverResult {
	var wg sync.WaitGroup
	res := make([]SolverResult, len(solvers))
	// the first definite answer (sat / unsat) ends the race: the other solvers are stopped
	ctx, cancel := context.WithCancel(context.Background())
	defer cancel()
	for i, s := range solvers {
		wg.Add(1)
		go func(i int, s string) {
			defer wg.Done()
			r := runSolverCtx(ctx, s, script, timeoutMs)
			first := ""
			for _, ln := range strings.Split(r.Output, "\n") {
				ln = strings.TrimSpace(ln)
				if ln == "sat" || ln == "unsat" || ln == "unknown" || ln == "timeout" {
					first = ln
					break
				}
			}
			if first == "" {
				first = "error"
				if ctx.Err() != nil {
					first = "cancelled"
				}
			}
			r.Status = first
			res[i] = r
			if first == "sat" || first == "unsat" {
				cancel()
			}
		}(i, s)
	}
	wg.Wait()
	return res
}

func writeFile(path, content string) error {
	return os.WriteFile(path, []byte(content), 0o644)
}
