package main

import (
	"flag"
	"fmt"
	"os"
	"regexp"
	"sort"
	"strings"
	"time"
)

func main() {
	if len(os.Args) < 2 {
		fmt.Println("usage: govc verify|check ...")
		os.Exit(2)
	}
	switch os.Args[1] {
	case "verify":
		cmdVerify(os.Args[2:])
	case "check":
		cmdCheck(os.Args[2:])
	case "bounded":
		cmdBounded(os.Args[2:])
	case "replay":
		cmdReplay(os.Args[2:])
	case "lockorder":
		cmdLockOrder(os.Args[2:])
	default:
		fmt.Println("unknown command")
		os.Exit(2)
	}
}

var allPkgs = []string{"./ship", "./hub", "./ws", "./mdns", "./cert", "./util", "./api", "./model"}

// cmdVerify: debugging entry — verify the functions whose key matches a regex and print every obligation.
func cmdVerify(args []string) {
	fs := flag.NewFlagSet("verify", flag.ExitOnError)
	repo := fs.String("repo", "/repo", "repository root")
	re := fs.String("fn", ".", "regex on function keys (functions under contract)")
	verbose := fs.Bool("v", false, "print all obligations")
	dump := fs.String("dump", "", "directory to dump failing SMT scripts into")
	timeout := fs.Int("t", 5000, "per-query timeout ms")
	fs.Parse(args)
	t0 := time.Now()
	w, err := loadWorld(*repo, allPkgs)
	if err != nil {
		fmt.Println("load:", err)
		os.Exit(2)
	}
	if err := w.loadContracts(); err != nil {
		fmt.Println("contracts:", err)
		os.Exit(2)
	}
	fmt.Printf("loaded in %.1fs, %d functions, %d contracts\n", time.Since(t0).Seconds(), len(w.funcs), len(w.cs.Funcs))
	rx := regexp.MustCompile(*re)
	var keys []string
	for k, fc := range w.cs.Funcs {
		if (fc.Kind == "func" || fc.Kind == "closure") && !fc.Trusted && !fc.Inline && rx.MatchString(k) {
			keys = append(keys, k)
		}
	}
	sort.Strings(keys)
	var all []*Obligation
	for _, k := range keys {
		fn := w.funcs[k]
		if fn == nil {
			fmt.Printf("ORPHAN contract %s: no such function\n", k)
			continue
		}
		r := w.verifyFunc(fn, w.cs.Funcs[k], []string{"C08"}, false)
		if r.Rejected != "" {
			fmt.Printf("REJECTED %s: %s\n", shortKey(k), r.Rejected)
			continue
		}
		fmt.Printf("%-70s paths=%d exits=%d obls=%d abstracted=%v inlined=%d (%.2fs)\n", shortKey(k), r.Paths, r.Exits, len(r.Obls), r.Abstracted, len(r.Inlined), r.Secs)
		all = append(all, r.Obls...)
		if fc := w.cs.Funcs[k]; fc.Implements != "" {
			if d := w.ifaceAsContract(fc); d != nil {
				r2 := w.verifyFunc(fn, d, []string{"C08"}, false)
				if r2.Rejected != "" {
					fmt.Printf("REJECTED %s@iface: %s\n", shortKey(k), r2.Rejected)
				} else {
					for _, o := range r2.Obls {
						if !strings.HasPrefix(o.Kind, "safety:") && o.Kind != "cover" {
							all = append(all, o)
						}
					}
				}
			} else {
				fmt.Printf("ORPHAN implements %s: no such iface contract\n", fc.Implements)
			}
		}
	}
	var stats SolveStats
	t1 := time.Now()
	w.solve(all, *timeout, false, &stats)
	fmt.Printf("solved %d obligations in %.1fs: %v\n", len(all), time.Since(t1).Seconds(), stats.PerBackend)
	bad := 0
	coverOK := map[string]bool{}
	for _, o := range all {
		if o.Cover && o.Status == "sat" {
			coverOK[o.Name] = true
		}
	}
	for _, o := range all {
		if o.Cover && coverOK[o.Name] {
			continue
		}
		ok := o.Status == "unsat" && !o.Cover || o.Cover && o.Status == "sat"
		if !ok {
			bad++
		}
		if !ok || *verbose {
			fmt.Printf("%-8s %s  [%s] %s  (%s) %s\n", o.Status, o.Name, strings.Join(o.Tags, ","), o.Pos, o.Src, firstLines(o.Output, 1))
			if !ok && len(o.Trace) > 0 {
				fmt.Printf("         path: %s\n", strings.Join(o.Trace, " ; "))
			}
			if !ok && *dump != "" {
				os.MkdirAll(*dump, 0o755)
				writeFile(*dump+"/"+sanitize(o.Name)+fmt.Sprintf("_%d.smt2", o.PathID), w.script(o, true))
			}
		}
	}
	fmt.Printf("%d obligations, %d not discharged\n", len(all), bad)
}

