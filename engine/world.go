package main

import (
	"go/ast"
	"regexp"
	"fmt"
	"go/constant"
	"go/types"
	"sort"
	"strings"

	"golang.org/x/tools/go/packages"
	"golang.org/x/tools/go/ssa"
	"golang.org/x/tools/go/ssa/ssautil"
)

const modPath = "github.com/enbility/ship-go"

// Val is a symbolic Go value.
type Val struct {
	T    types.Type
	S    string // SMT term for scalar-sorted values (Int, Bool, String, Iface, Slice, Real)
	Sort string
	Fs   []Val    // struct fields / tuple elements
	A    *Addr    // statically resolved pointer target (pointer values)
	Clo  *Closure // statically known closure / function value
	Fn   *ssa.Function
	BI   string // builtin name
	Row  string // array values: the contents as an SMT (Array Int elemSort) term ("" = unconstrained contents)
}

type Closure struct {
	Fn    *ssa.Function
	Binds []Val
}

type Addr struct {
	Kind  string // obj, fld, mem, arr, elem
	Class string
	Ref   string
	Idx   string
	Elem  types.Type
}

type World struct {
	dbgNames map[*ssa.Function]map[string]ssa.Value
	knownObl []knownFinding // open findings (known-findings.txt): their clauses are not assumed at call sites
	repo    string
	prog    *ssa.Program
	pkgs    map[string]*ssa.Package
	tpkgs   map[string]*types.Package
	short   map[string]map[string]string // pkg path -> short name -> import path
	cs      *Contracts
	classes map[string]string // heap class -> SMT sort of the heap term
	classOrder []string
	classImm map[string]bool
	ufs     map[string]string
	ufOrder []string
	typeIDs map[string]int
	typeByID []types.Type
	funcs   map[string]*ssa.Function // by contract key
	specPrelude string
	specFuns map[string]*PredDef
	tableVals map[string]int64 // resolved constant names used in tables
	loadSecs float64
	reassigned map[string]bool
	callers  map[*ssa.Function]bool
}

func loadWorld(repo string, patterns []string) (*World, error) {
	cfg := &packages.Config{Mode: packages.LoadAllSyntax, Dir: repo, BuildFlags: []string{"-tags=verif"},
		Env: append(osEnviron(), "GOFLAGS=-mod=mod", "GOPROXY=off", "GOSUMDB=off", "GOTOOLCHAIN=local")}
	pkgs, err := packages.Load(cfg, patterns...)
	if err != nil {
		return nil, err
	}
	nerr := 0
	packages.Visit(pkgs, nil, func(p *packages.Package) {
		for _, e := range p.Errors {
			if nerr < 10 {
				fmt.Println("load error:", e)
			}
			nerr++
		}
	})
	if nerr > 0 {
		return nil, fmt.Errorf("%d package load errors", nerr)
	}
	prog, _ := ssautil.AllPackages(pkgs, ssa.InstantiateGenerics|ssa.GlobalDebug) // GlobalDebug: DebugRef instructions name source-level locals for loop invariants
	prog.Build()
	w := &World{repo: repo, prog: prog, pkgs: map[string]*ssa.Package{}, tpkgs: map[string]*types.Package{}, short: map[string]map[string]string{},
		classes: map[string]string{}, classImm: map[string]bool{}, ufs: map[string]string{}, typeIDs: map[string]int{}, funcs: map[string]*ssa.Function{}, specFuns: map[string]*PredDef{}, tableVals: map[string]int64{}}
	w.typeByID = append(w.typeByID, nil)
	for _, p := range prog.AllPackages() {
		w.pkgs[p.Pkg.Path()] = p
		w.tpkgs[p.Pkg.Path()] = p.Pkg
	}
	packages.Visit(pkgs, nil, func(p *packages.Package) {
		m := map[string]string{}
		for path, ip := range p.Imports {
			m[ip.Name] = path
		}
		// named imports
		for _, f := range p.Syntax {
			for _, is := range f.Imports {
				path := strings.Trim(is.Path.Value, `"`)
				if is.Name != nil && is.Name.Name != "_" && is.Name.Name != "." {
					m[is.Name.Name] = path
				}
			}
		}
		w.short[p.PkgPath] = m
	})
	// function index
	for fn := range ssautil.AllFunctions(prog) {
		if fn.Pkg == nil && fn.Origin() == nil {
			continue
		}
		w.funcs[funcKey(fn)] = fn
	}
	return w, nil
}

// funcKey is the canonical name used in contract files for an SSA function.
func funcKey(fn *ssa.Function) string {
	s := fn.String()
	return s
}

func (w *World) loadContracts() error {
	w.cs = newContracts()
	files, err := findContractFiles(w.repo)
	if err != nil {
		return err
	}
	for _, f := range files {
		// package path from directory
		rel := strings.TrimPrefix(strings.TrimPrefix(f, w.repo), "/")
		dir := rel[:strings.LastIndex(rel, "/")]
		pkgPath := modPath + "/" + dir
		short := map[string]string{}
		for k, v := range w.short[pkgPath] {
			short[k] = v
		}
		// all module packages addressable by their last element
		for p := range w.tpkgs {
			if strings.HasPrefix(p, modPath+"/") {
				n := p[strings.LastIndex(p, "/")+1:]
				if _, ok := short[n]; !ok {
					short[n] = p
				}
			}
		}
		if w.short[pkgPath] == nil {
			w.short[pkgPath] = map[string]string{}
		}
		for k, v := range short {
			w.short[pkgPath][k] = v
		}
		if err := w.cs.loadContractFile(f, pkgPath, short); err != nil {
			return err
		}
	}
	// ghost classes
	for _, g := range w.cs.Ghosts {
		if g.Global {
			w.declClass("gg:"+g.Name, g.Sort)
		} else {
			w.declClass("ghost:"+g.Name, "(Array Int "+g.Sort+")")
		}
	}
	// heap classes of every scalar field of the module's struct types exist from the start (contracts and
	// loop summaries may name them before the executor first touches them)
	for path, tp := range w.tpkgs {
		if !strings.HasPrefix(path, modPath+"/") {
			continue
		}
		for _, name := range tp.Scope().Names() {
			tn, ok := tp.Scope().Lookup(name).(*types.TypeName)
			if !ok {
				continue
			}
			st, ok := tn.Type().Underlying().(*types.Struct)
			if !ok {
				continue
			}
			for i := 0; i < st.NumFields(); i++ {
				if srt := sortOf(st.Field(i).Type()); srt != "" {
					cls := fieldClass(tn.Type(), i)
					w.declClass(cls, "(Array Int "+srt+")")
					if w.cs.Immutable[cls] {
						w.classImm[cls] = true
					}
				}
			}
		}
	}
	// string library functions usable in specifications (the same uninterpreted symbols the executor uses)
	for _, uf := range []struct {
		name  string
		sorts []string
	}{{"uf_ReplaceAll", []string{"String", "String", "String"}}, {"uf_ToLower", []string{"String"}}, {"uf_ToUpper", []string{"String"}}} {
		w.declUF(uf.name, "(declare-fun "+uf.name+" ("+strings.Join(uf.sorts, " ")+") String)")
		var ps []string
		for i := range uf.sorts {
			ps = append(ps, fmt.Sprintf("a%d", i))
		}
		w.specFuns[uf.name] = &PredDef{Name: uf.name, Params: ps, Sorts: uf.sorts, Ret: "String", Uninterp: true}
	}
	return w.buildSpecPrelude()
}

func (w *World) declClass(name, sort string) {
	if old, ok := w.classes[name]; ok {
		if old != sort {
			panic(fmt.Sprintf("class %s redeclared with sort %s (was %s)", name, sort, old))
		}
		return
	}
	w.classes[name] = sort
	w.classOrder = append(w.classOrder, name)
}

func (w *World) declUF(name, decl string) {
	if _, ok := w.ufs[name]; ok {
		return
	}
	w.ufs[name] = decl
	w.ufOrder = append(w.ufOrder, name)
}

// canonType is the type's string with the predeclared aliases resolved (byte = uint8, rune = int32, any =
// interface{}): identical types must name the same heap class and the same dynamic type tag.
var aliasRe = regexp.MustCompile(`\b(byte|rune|any)\b`)

func canonString(s string) string {
	return aliasRe.ReplaceAllStringFunc(s, func(m string) string {
		switch m {
		case "byte":
			return "uint8"
		case "rune":
			return "int32"
		}
		return "interface{}"
	})
}

func canonType(t types.Type) string { return canonString(types.TypeString(t, nil)) }

func (w *World) typeID(t types.Type) int {
	k := canonType(t)
	if id, ok := w.typeIDs[k]; ok {
		return id
	}
	id := len(w.typeByID)
	w.typeIDs[k] = id
	w.typeByID = append(w.typeByID, t)
	return id
}

// sortOf returns the SMT sort used for values of Go type t ("" for composite struct/tuple/array values).
func sortOf(t types.Type) string {
	switch u := t.Underlying().(type) {
	case *types.Basic:
		switch {
		case u.Info()&types.IsBoolean != 0:
			return "Bool"
		case u.Info()&types.IsInteger != 0:
			return "Int"
		case u.Info()&types.IsString != 0:
			return "String"
		case u.Info()&types.IsFloat != 0:
			return "Real"
		case u.Kind() == types.UnsafePointer:
			return "Int"
		case u.Kind() == types.UntypedNil:
			return "Int"
		}
		return ""
	case *types.Pointer, *types.Map, *types.Chan, *types.Signature:
		return "Int"
	case *types.Interface:
		return "Iface"
	case *types.Slice:
		return "Slice"
	}
	return ""
}

func intRange(t types.Type) (lo, hi string, ok bool) {
	b, isB := t.Underlying().(*types.Basic)
	if !isB || b.Info()&types.IsInteger == 0 {
		return "", "", false
	}
	switch b.Kind() {
	case types.Int8:
		return "(- 128)", "127", true
	case types.Int16:
		return "(- 32768)", "32767", true
	case types.Int32:
		return "(- 2147483648)", "2147483647", true
	case types.Int, types.Int64:
		return "(- 9223372036854775808)", "9223372036854775807", true
	case types.Uint8:
		return "0", "255", true
	case types.Uint16:
		return "0", "65535", true
	case types.Uint32:
		return "0", "4294967295", true
	case types.Uint, types.Uint64, types.Uintptr:
		return "0", "18446744073709551615", true
	}
	return "", "", false
}

func constTerm(c constant.Value, t types.Type) (string, bool) {
	switch sortOf(t) {
	case "Bool":
		if constant.BoolVal(c) {
			return "true", true
		}
		return "false", true
	case "Int":
		if c.Kind() == constant.Int {
			return sIntStr(c.ExactString()), true
		}
		if c.Kind() == constant.Float {
			if i, ok := constant.Int64Val(constant.ToInt(c)); ok {
				return sInt(i), true
			}
		}
	case "String":
		return sStr(constant.StringVal(c)), true
	case "Real":
		f, _ := constant.Float64Val(c)
		s := fmt.Sprintf("%f", f)
		if f < 0 {
			s = "(- " + s[1:] + ")"
		}
		return s, true
	}
	return "", false
}

func fieldClass(st types.Type, i int) string {
	var name string
	if n, ok := st.(*types.Named); ok {
		o := n.Obj()
		if o.Pkg() != nil {
			name = o.Pkg().Path() + "." + o.Name()
		} else {
			name = o.Name()
		}
		if n.TypeArgs() != nil && n.TypeArgs().Len() > 0 {
			name = types.TypeString(n, nil)
		}
	} else {
		name = types.TypeString(st, nil)
	}
	fname := st.Underlying().(*types.Struct).Field(i).Name()
	if fname == "_" {
		fname = fmt.Sprintf("_%d", i) // blank fields are distinct locations
	}
	return name + "." + fname
}

func namedKey(t types.Type) string {
	if p, ok := t.(*types.Pointer); ok {
		t = p.Elem()
	}
	if n, ok := t.(*types.Named); ok && n.Obj().Pkg() != nil {
		return n.Obj().Pkg().Path() + "." + n.Obj().Name()
	}
	return types.TypeString(t, nil)
}

// ---- spec prelude: predicates, tables, derived relations ----

func (w *World) lookupConst(name, pkgPath string) (constant.Value, types.Type, bool) {
	var pkg *types.Package
	n := name
	if i := strings.LastIndex(name, "."); i >= 0 {
		p := name[:i]
		n = name[i+1:]
		if full, ok := w.short[pkgPath][p]; ok {
			pkg = w.tpkgs[full]
		} else {
			pkg = w.tpkgs[p]
		}
	} else {
		pkg = w.tpkgs[pkgPath]
	}
	if pkg == nil {
		return nil, nil, false
	}
	o := pkg.Scope().Lookup(n)
	c, ok := o.(*types.Const)
	if !ok {
		return nil, nil, false
	}
	return c.Val(), c.Type(), true
}

func (w *World) buildSpecPrelude() error {
	var b strings.Builder
	cs := w.cs
	// tables first (as define-funs over Int states and String roles)
	var tnames []string
	for n := range cs.Tables {
		tnames = append(tnames, n)
	}
	sort.Strings(tnames)
	for _, n := range tnames {
		td := cs.Tables[n]
		res := func(s string) (int64, error) {
			v, _, ok := w.lookupConst(s, td.Pkg)
			if !ok {
				return 0, fmt.Errorf("table %s: unknown constant %s", n, s)
			}
			i, _ := constant.Int64Val(v)
			w.tableVals[s] = i
			return i, nil
		}
		roles := map[string]string{}
		for _, r := range td.RoleNames {
			// role name "client=ShipRoleClient"
			p := strings.SplitN(r, "=", 2)
			v, _, ok := w.lookupConst(p[1], td.Pkg)
			if !ok {
				return fmt.Errorf("table %s: unknown role constant %s", n, p[1])
			}
			roles[p[0]] = constant.StringVal(v)
		}
		type edge struct {
			role     string
			from, to int64
		}
		var edges []edge
		states := map[int64]bool{}
		for _, r := range td.Rows {
			f, err := res(r.From)
			if err != nil {
				return err
			}
			t, err := res(r.To)
			if err != nil {
				return err
			}
			states[f], states[t] = true, true
			if r.Role == "" {
				for _, rv := range roles {
					edges = append(edges, edge{rv, f, t})
				}
			} else {
				rv, ok := roles[r.Role]
				if !ok {
					return fmt.Errorf("table %s: unknown role %s", n, r.Role)
				}
				edges = append(edges, edge{rv, f, t})
			}
		}
		sink := int64(-1)
		if td.Sink != "" {
			s, err := res(td.Sink)
			if err != nil {
				return err
			}
			sink = s
			states[s] = true
		}
		var disj []string
		if td.Reflexive {
			disj = append(disj, "(= s t)")
		}
		if sink >= 0 {
			disj = append(disj, fmt.Sprintf("(= t %d)", sink))
		}
		for _, e := range edges {
			disj = append(disj, fmt.Sprintf("(and (= r %s) (= s %d) (= t %d))", sStr(e.role), e.from, e.to))
		}
		fmt.Fprintf(&b, "(define-fun %s ((r String) (s Int) (t Int)) Bool %s)\n", n, sOr(disj...))
		w.specFuns[n] = &PredDef{Name: n, Params: []string{"r", "s", "t"}, Sorts: []string{"String", "Int", "Int"}, Ret: "Bool"}
		// derived relations
		var dnames []string
		for dn, d := range cs.Derived {
			if d[1] == n {
				dnames = append(dnames, dn)
			}
		}
		sort.Strings(dnames)
		// all states 0..max
		var maxS int64
		for s := range states {
			if s > maxS {
				maxS = s
			}
		}
		var rnames []string
		for _, rv := range roles {
			rnames = append(rnames, rv)
		}
		sort.Strings(rnames)
		adj := func(role string, s, t int64) bool {
			if td.Reflexive && s == t {
				return true
			}
			if t == sink {
				return true
			}
			for _, e := range edges {
				if e.role == role && e.from == s && e.to == t {
					return true
				}
			}
			return false
		}
		for _, dn := range dnames {
			kind := cs.Derived[dn][0]
			switch kind {
			case "closure":
				var dj []string
				dj = append(dj, "(= s t)")
				for _, role := range rnames {
					for s := int64(0); s <= maxS; s++ {
						// BFS
						seen := map[int64]bool{s: true}
						q := []int64{s}
						for len(q) > 0 {
							c := q[0]
							q = q[1:]
							for t := int64(0); t <= maxS; t++ {
								if !seen[t] && adj(role, c, t) {
									seen[t] = true
									q = append(q, t)
								}
							}
						}
						var ts []string
						for t := int64(0); t <= maxS; t++ {
							if seen[t] && t != s {
								ts = append(ts, fmt.Sprintf("(= t %d)", t))
							}
						}
						if len(ts) > 0 {
							dj = append(dj, fmt.Sprintf("(and (= r %s) (= s %d) %s)", sStr(role), s, sOr(ts...)))
						}
					}
				}
				fmt.Fprintf(&b, "(define-fun %s ((r String) (s Int) (t Int)) Bool %s)\n", dn, sOr(dj...))
				w.specFuns[dn] = &PredDef{Name: dn, Params: []string{"r", "s", "t"}, Sorts: []string{"String", "Int", "Int"}, Ret: "Bool"}
			case "rank":
				// longest non-reflexive path length from s (acyclicity checked: error if cycle)
				body := "0"
				for _, role := range rnames {
					memo := map[int64]int64{}
					onstack := map[int64]bool{}
					var cyc error
					var rank func(s int64) int64
					rank = func(s int64) int64 {
						if v, ok := memo[s]; ok {
							return v
						}
						if onstack[s] {
							cyc = fmt.Errorf("table %s has a cycle through state %d for role %s", n, s, role)
							return 0
						}
						onstack[s] = true
						best := int64(0)
						for t := int64(0); t <= maxS; t++ {
							if t != s && adj(role, s, t) {
								if r := rank(t) + 1; r > best {
									best = r
								}
							}
						}
						onstack[s] = false
						memo[s] = best
						return best
					}
					for s := int64(0); s <= maxS; s++ {
						rank(s)
					}
					if cyc != nil {
						return cyc
					}
					inner := "0"
					for s := maxS; s >= 0; s-- {
						inner = fmt.Sprintf("(ite (= s %d) %d %s)", s, memo[s], inner)
					}
					body = fmt.Sprintf("(ite (= r %s) %s %s)", sStr(role), inner, body)
				}
				fmt.Fprintf(&b, "(define-fun %s ((r String) (s Int)) Int %s)\n", dn, body)
				w.specFuns[dn] = &PredDef{Name: dn, Params: []string{"r", "s"}, Sorts: []string{"String", "Int"}, Ret: "Int"}
			default:
				return fmt.Errorf("unknown derive kind %s", kind)
			}
		}
	}
	// uninterpreted spec functions, then predicates in dependency order (by repeated passes)
	var pnames []string
	for n := range cs.Preds {
		pnames = append(pnames, n)
	}
	sort.Strings(pnames)
	for _, n := range pnames {
		pd := cs.Preds[n]
		if pd.Uninterp {
			fmt.Fprintf(&b, "(declare-fun %s (%s) %s)\n", n, strings.Join(pd.Sorts, " "), pd.Ret)
			w.specFuns[n] = pd
		}
	}
	pending := map[string]bool{}
	for _, n := range pnames {
		if !cs.Preds[n].Uninterp {
			pending[n] = true
		}
	}
	for len(pending) > 0 {
		progress := false
		for _, n := range pnames {
			if !pending[n] {
				continue
			}
			pd := cs.Preds[n]
			env := &specEnv{w: w, pkg: pd.Pkg, vars: map[string]Val{}, pure: true}
			var ps []string
			for i, p := range pd.Params {
				env.vars[p] = Val{S: p, Sort: pd.Sorts[i]}
				ps = append(ps, fmt.Sprintf("(%s %s)", p, pd.Sorts[i]))
			}
			v, err := env.evalSafe(pd.Body)
			if err != nil {
				if strings.Contains(err.Error(), "unknown spec function") {
					continue // maybe defined later
				}
				return fmt.Errorf("pred %s: %v", n, err)
			}
			if v.Sort != pd.Ret {
				return fmt.Errorf("pred %s: body has sort %s, declared %s", n, v.Sort, pd.Ret)
			}
			fmt.Fprintf(&b, "(define-fun %s (%s) %s %s)\n", n, strings.Join(ps, " "), pd.Ret, v.S)
			w.specFuns[n] = pd
			delete(pending, n)
			progress = true
		}
		if !progress {
			var left []string
			for n := range pending {
				left = append(left, n)
			}
			return fmt.Errorf("cannot resolve predicates: %v", left)
		}
	}
	w.specPrelude = b.String()
	return nil
}

func (w *World) prelude() string {
	var b strings.Builder
	b.WriteString("(set-option :produce-models true)\n(set-logic ALL)\n")
	b.WriteString("(declare-datatypes ((Iface 0)) (((mk-iface (itag Int) (iref Int)))))\n")
	b.WriteString("(declare-datatypes ((Slice 0)) (((mk-slice (sarr Int) (soff Int) (slen Int) (scap Int)))))\n")
	for _, n := range w.ufOrder {
		b.WriteString(w.ufs[n])
		b.WriteString("\n")
	}
	b.WriteString(w.specPrelude)
	for _, ax := range w.cs.Axioms {
		env := &specEnv{w: w, pkg: ax.Pkg, vars: map[string]Val{}, pure: true}
		v, err := env.evalSafe(ax.E)
		if err == nil {
			fmt.Fprintf(&b, "(assert %s) ; axiom %s\n", v.S, ax.Name)
		}
	}
	return b.String()
}

// debugNames maps the source-level names of a function's locals to the SSA value they denote, for locals that
// denote one value throughout (assigned once, not address-taken). Used to resolve names in loop invariants.
func (w *World) debugNames(fn *ssa.Function) map[string]ssa.Value {
	if w.dbgNames == nil {
		w.dbgNames = map[*ssa.Function]map[string]ssa.Value{}
	}
	if m, ok := w.dbgNames[fn]; ok {
		return m
	}
	m := map[string]ssa.Value{}
	amb := map[string]bool{}
	for _, b := range fn.Blocks {
		for _, ins := range b.Instrs {
			d, ok := ins.(*ssa.DebugRef)
			if !ok || d.IsAddr {
				continue
			}
			id, ok := d.Expr.(*ast.Ident)
			if !ok {
				continue
			}
			if old, ok := m[id.Name]; ok && old != d.X {
				amb[id.Name] = true
			}
			m[id.Name] = d.X
		}
	}
	for n := range amb {
		delete(m, n)
	}
	w.dbgNames[fn] = m
	return m
}
