package main

// Lock-order analysis (deadlock freedom of the module's own mutexes, used by C12 / C19 "never hangs / deadlocks").
//
// Mutexes are abstracted to classes (struct type + field). For every function of the module a forward MAY-hold set of
// classes is computed over the SSA control-flow graph (union at joins; `defer m.Unlock()` keeps the class held until
// the function returns). A function's acquire summary is the set of classes it may lock itself or through anything it
// calls: static callees, closures it calls, and - for calls through an interface - every type of the module that
// implements the interface (callbacks between the layers are where lock cycles hide). `go f()` starts a new goroutine
// and carries no held locks. An edge A -> B is recorded when B may be acquired while A may be held. The obligation is
// that the edge relation between DIFFERENT classes has no cycle. Re-acquiring the class that is already held (A -> A)
// is reported separately: it is a self-deadlock if both are the same object.

import (
	"fmt"
	"go/token"
	"go/types"
	"sort"
	"strings"

	"golang.org/x/tools/go/ssa"
)

type lockOrder struct {
	w       *World
	fns     []*ssa.Function
	acq     map[*ssa.Function]map[string]bool // transitive acquire summary
	edges   map[string]map[string]string      // A -> B -> witness
	selfs   map[string]string                 // A -> witness of re-acquiring A while holding A
	onces   map[string]bool                   // classes that are sync.Once fields
	blocks  []string                          // blocking channel operations executed while a mutex may be held
	blockCl [][]string                        // the mutex classes held at each of them
	impls   map[string][]*ssa.Function        // iface method key -> implementations in the module
	callees map[*ssa.Function][]*ssa.Function
}

func mutexClassOf(v ssa.Value) (string, bool) {
	fa, ok := v.(*ssa.FieldAddr)
	if !ok {
		return "", false
	}
	pt, ok := fa.X.Type().Underlying().(*types.Pointer)
	if !ok {
		return "", false
	}
	if _, ok := pt.Elem().Underlying().(*types.Struct); !ok {
		return "", false
	}
	return shortKey(fieldClass(pt.Elem(), fa.Field)), true
}

func lockOp(ins ssa.Instruction) (class string, acquire bool, deferred bool, ok bool) {
	var cc *ssa.CallCommon
	switch t := ins.(type) {
	case *ssa.Call:
		cc = &t.Call
	case *ssa.Defer:
		cc = &t.Call
		deferred = true
	default:
		return
	}
	callee := cc.StaticCallee()
	if callee == nil || len(cc.Args) == 0 {
		return
	}
	switch callee.String() {
	case "(*sync.Mutex).Lock", "(*sync.RWMutex).Lock", "(*sync.RWMutex).RLock":
		acquire = true
	case "(*sync.Mutex).Unlock", "(*sync.RWMutex).Unlock", "(*sync.RWMutex).RUnlock":
	default:
		return
	}
	class, ok = mutexClassOf(cc.Args[0])
	return
}

// onceDo recognises once.Do(f): a sync.Once behaves like a lock held while f runs (a second caller waits for the
// first to finish, a nested call from inside f never returns). Returns the class of the Once and the function f.
func onceDo(ins ssa.Instruction) (class string, body *ssa.Function, ok bool) {
	c, isCall := ins.(*ssa.Call)
	if !isCall {
		return
	}
	callee := c.Call.StaticCallee()
	if callee == nil || callee.String() != "(*sync.Once).Do" || len(c.Call.Args) != 2 {
		return
	}
	class, ok = mutexClassOf(c.Call.Args[0])
	if !ok {
		return
	}
	switch f := c.Call.Args[1].(type) {
	case *ssa.MakeClosure:
		body, _ = f.Fn.(*ssa.Function)
	case *ssa.Function:
		body = f
	}
	return class, body, true
}

func (lo *lockOrder) moduleFn(fn *ssa.Function) bool {
	if fn == nil || fn.Blocks == nil {
		return false
	}
	pk := fn.Pkg
	for p := fn; pk == nil && p != nil; p = p.Parent() {
		pk = p.Pkg
	}
	if pk == nil && fn.Origin() != nil {
		pk = fn.Origin().Pkg
	}
	if pk == nil || !strings.HasPrefix(pk.Pkg.Path(), modPath) {
		return false
	}
	pos := lo.w.prog.Fset.Position(fn.Pos())
	return !strings.HasSuffix(pos.Filename, "_test.go") && !strings.Contains(pos.Filename, "/mocks/")
}

// targets of a call instruction that keep the caller's locks held (no `go`)
func (lo *lockOrder) targets(ins ssa.Instruction) []*ssa.Function {
	var cc *ssa.CallCommon
	switch t := ins.(type) {
	case *ssa.Call:
		cc = &t.Call
	case *ssa.Defer:
		cc = &t.Call
	default:
		return nil
	}
	if cc.IsInvoke() {
		key := namedKey(cc.Value.Type()) + "." + cc.Method.Name()
		return lo.impls[key]
	}
	if callee := cc.StaticCallee(); callee != nil {
		if lo.moduleFn(callee) {
			return []*ssa.Function{callee}
		}
		return nil
	}
	if mc, ok := cc.Value.(*ssa.MakeClosure); ok {
		return []*ssa.Function{mc.Fn.(*ssa.Function)}
	}
	return nil
}

func runLockOrder(w *World) *lockOrder {
	lo := &lockOrder{w: w, acq: map[*ssa.Function]map[string]bool{}, edges: map[string]map[string]string{}, selfs: map[string]string{}, onces: map[string]bool{}, impls: map[string][]*ssa.Function{}, callees: map[*ssa.Function][]*ssa.Function{}}
	seen := map[*ssa.Function]bool{}
	var add func(fn *ssa.Function)
	add = func(fn *ssa.Function) {
		if seen[fn] || !lo.moduleFn(fn) {
			return
		}
		seen[fn] = true
		lo.fns = append(lo.fns, fn)
		for _, an := range fn.AnonFuncs {
			add(an)
		}
	}
	for _, fn := range w.funcs {
		add(fn)
	}
	sort.Slice(lo.fns, func(i, j int) bool { return funcKey(lo.fns[i]) < funcKey(lo.fns[j]) })
	// interface implementations inside the module
	var ifaces []*types.Named
	var named []*types.Named
	for _, pkg := range w.tpkgs {
		if !strings.HasPrefix(pkg.Path(), modPath) || strings.HasSuffix(pkg.Path(), "/mocks") {
			continue
		}
		for _, n := range pkg.Scope().Names() {
			tn, ok := pkg.Scope().Lookup(n).(*types.TypeName)
			if !ok {
				continue
			}
			nt, ok := tn.Type().(*types.Named)
			if !ok {
				continue
			}
			if _, isI := nt.Underlying().(*types.Interface); isI {
				ifaces = append(ifaces, nt)
			} else {
				named = append(named, nt)
			}
		}
	}
	for _, it := range ifaces {
		iface := it.Underlying().(*types.Interface)
		for _, nt := range named {
			pt := types.NewPointer(nt)
			if !types.Implements(pt, iface) && !types.Implements(nt, iface) {
				continue
			}
			for i := 0; i < iface.NumMethods(); i++ {
				m := iface.Method(i)
				sel := w.prog.MethodSets.MethodSet(pt).Lookup(m.Pkg(), m.Name())
				if sel == nil {
					continue
				}
				if fn := w.prog.MethodValue(sel); fn != nil && lo.moduleFn(fn) {
					key := namedKey(it) + "." + m.Name()
					lo.impls[key] = append(lo.impls[key], fn)
				}
			}
		}
	}
	// direct acquires and call graph
	for _, fn := range lo.fns {
		lo.acq[fn] = map[string]bool{}
		for _, b := range fn.Blocks {
			for _, ins := range b.Instrs {
				if c, a, d, ok := lockOp(ins); ok && a && !d {
					lo.acq[fn][c] = true
				}
				if oc, body, ok := onceDo(ins); ok {
					lo.onces[oc] = true
					lo.acq[fn][oc] = true
					if body != nil {
						lo.callees[fn] = append(lo.callees[fn], body)
					}
					continue
				}
				if _, isGo := ins.(*ssa.Go); isGo {
					continue
				}
				lo.callees[fn] = append(lo.callees[fn], lo.targets(ins)...)
			}
		}
	}
	for changed := true; changed; {
		changed = false
		for _, fn := range lo.fns {
			for _, g := range lo.callees[fn] {
				for c := range lo.acq[g] {
					if !lo.acq[fn][c] {
						lo.acq[fn][c] = true
						changed = true
					}
				}
			}
		}
	}
	// may-hold dataflow and edges
	for _, fn := range lo.fns {
		in := map[*ssa.BasicBlock]map[string]bool{}
		if len(fn.Blocks) == 0 {
			continue
		}
		in[fn.Blocks[0]] = map[string]bool{}
		work := []*ssa.BasicBlock{fn.Blocks[0]}
		deferredHeld := map[string]bool{} // classes whose Unlock is deferred: held until return
		for _, b := range fn.Blocks {
			for _, ins := range b.Instrs {
				if c, a, d, ok := lockOp(ins); ok && !a && d {
					deferredHeld[c] = true
				}
			}
		}
		out := func(b *ssa.BasicBlock, record bool) map[string]bool {
			cur := map[string]bool{}
			for k := range in[b] {
				cur[k] = true
			}
			for _, ins := range b.Instrs {
				if c, a, d, ok := lockOp(ins); ok {
					if a && !d {
						if record {
							for h := range cur {
								lo.note(h, c, fn, ins)
							}
						}
						cur[c] = true
					} else if !a && !d {
						delete(cur, c)
					}
					continue
				}
				if oc, body, ok := onceDo(ins); ok {
					if record {
						for h := range cur {
							lo.note(h, oc, fn, ins)
						}
						if body != nil {
							for c := range lo.acq[body] {
								lo.noteVia(oc, c, fn, ins, body)
								for h := range cur {
									lo.noteVia(h, c, fn, ins, body)
								}
							}
						}
					}
					continue
				}
				if _, isGo := ins.(*ssa.Go); isGo {
					continue
				}
				if record && len(cur) > 0 {
					blocking := ""
					switch t := ins.(type) {
					case *ssa.Send:
						blocking = "channel send"
					case *ssa.Select:
						if t.Blocking {
							blocking = "blocking select"
						}
					case *ssa.UnOp:
						if t.Op == token.ARROW {
							blocking = "channel receive"
						}
					}
					if blocking != "" {
						var hs []string
						for h := range cur {
							hs = append(hs, h)
						}
						sort.Strings(hs)
						lo.blockCl = append(lo.blockCl, hs)
						lo.blocks = append(lo.blocks, fmt.Sprintf("%s: %s while holding %s (%s)", shortKey(funcKey(fn)), blocking, strings.Join(hs, ", "), posString(lo.w, ins.Pos())))
					}
				}
				if record && len(cur) > 0 {
					for _, g := range lo.targets(ins) {
						for c := range lo.acq[g] {
							for h := range cur {
								lo.noteVia(h, c, fn, ins, g)
							}
						}
					}
				}
			}
			return cur
		}
		for len(work) > 0 {
			b := work[len(work)-1]
			work = work[:len(work)-1]
			o := out(b, false)
			for _, s := range b.Succs {
				if in[s] == nil {
					in[s] = map[string]bool{}
					for k := range o {
						in[s][k] = true
					}
					work = append(work, s)
					continue
				}
				grew := false
				for k := range o {
					if !in[s][k] {
						in[s][k] = true
						grew = true
					}
				}
				if grew {
					work = append(work, s)
				}
			}
		}
		_ = deferredHeld
		for _, b := range fn.Blocks {
			if in[b] != nil {
				out(b, true)
			}
		}
	}
	return lo
}

func (lo *lockOrder) note(held, acquired string, fn *ssa.Function, ins ssa.Instruction) {
	wit := fmt.Sprintf("%s locks %s while holding %s (%s)", shortKey(funcKey(fn)), acquired, held, posString(lo.w, ins.Pos()))
	lo.put(held, acquired, wit)
}

func (lo *lockOrder) noteVia(held, acquired string, fn *ssa.Function, ins ssa.Instruction, g *ssa.Function) {
	wit := fmt.Sprintf("%s calls %s, which may lock %s, while holding %s (%s)", shortKey(funcKey(fn)), shortKey(funcKey(g)), acquired, held, posString(lo.w, ins.Pos()))
	lo.put(held, acquired, wit)
}

func (lo *lockOrder) put(a, b, wit string) {
	if a == b {
		if lo.onces[a] {
			// a call of once.Do from inside its own body is path-dependent (the close path is guarded by the closing
			// mark): that case is a deductive obligation (ship: F1-no-reentry), not a syntactic one
			return
		}
		if _, ok := lo.selfs[a]; !ok {
			lo.selfs[a] = wit
		}
		return
	}
	if lo.edges[a] == nil {
		lo.edges[a] = map[string]string{}
	}
	if _, ok := lo.edges[a][b]; !ok {
		lo.edges[a][b] = wit
	}
}

// cycles returns one witness per elementary cycle found by DFS (between different classes).
func (lo *lockOrder) cycles() [][]string {
	var nodes []string
	for a := range lo.edges {
		nodes = append(nodes, a)
	}
	sort.Strings(nodes)
	var out [][]string
	seenCycle := map[string]bool{}
	var stack []string
	on := map[string]bool{}
	done := map[string]bool{}
	var dfs func(a string)
	dfs = func(a string) {
		stack = append(stack, a)
		on[a] = true
		var succ []string
		for b := range lo.edges[a] {
			succ = append(succ, b)
		}
		sort.Strings(succ)
		for _, b := range succ {
			if on[b] {
				var cyc []string
				for i := len(stack) - 1; i >= 0; i-- {
					cyc = append([]string{stack[i]}, cyc...)
					if stack[i] == b {
						break
					}
				}
				key := append([]string{}, cyc...)
				sort.Strings(key)
				if k := strings.Join(key, "|"); !seenCycle[k] {
					seenCycle[k] = true
					out = append(out, cyc)
				}
				continue
			}
			if !done[b] {
				dfs(b)
			}
		}
		on[a] = false
		done[a] = true
		stack = stack[:len(stack)-1]
	}
	for _, a := range nodes {
		if !done[a] {
			dfs(a)
		}
	}
	return out
}

// globalWrites lists uses of package-level variables of the module that can modify them outside a package initialiser:
// a store to the variable, or its address handed to a call / stored / captured (the callee may write through it).
func globalWrites(w *World) []string {
	var out []string
	lo := &lockOrder{w: w}
	for _, fn := range w.funcs {
		if !lo.moduleFn(fn) || fn.Name() == "init" || strings.HasPrefix(fn.Name(), "init#") {
			continue
		}
		var visit func(f *ssa.Function)
		visit = func(f *ssa.Function) {
			for _, b := range f.Blocks {
				for _, ins := range b.Instrs {
					use := func(v ssa.Value, how string) {
						g, ok := v.(*ssa.Global)
						if !ok || g.Pkg == nil || !strings.HasPrefix(g.Pkg.Pkg.Path(), modPath) {
							return
						}
						if pt, ok := g.Type().(*types.Pointer); ok {
							if n, ok := pt.Elem().(*types.Named); ok && n.Obj().Pkg() != nil && n.Obj().Pkg().Path() == "sync" {
								return // a package-level mutex: locking it is what it is for
							}
						}
						if g.Pkg.Pkg.Path() == modPath+"/logging" {
							return // the logger is replaced and read under the package's own mutex (logging.mux) - see log.go
						}
						out = append(out, fmt.Sprintf("%s %s package variable %s.%s (%s)", shortKey(funcKey(f)), how, g.Pkg.Pkg.Name(), g.Name(), posString(w, ins.Pos())))
					}
					switch t := ins.(type) {
					case *ssa.Store:
						use(t.Addr, "stores to")
						use(t.Val, "stores the address of")
					case ssa.CallInstruction:
						for _, a := range t.Common().Args {
							use(a, "passes the address of")
						}
					case *ssa.MakeClosure:
						for _, bnd := range t.Bindings {
							use(bnd, "captures the address of")
						}
					case *ssa.FieldAddr:
						// &global.field: followed by a store or a call in most cases; flagged when stored to / passed on
						if g, ok := t.X.(*ssa.Global); ok && g.Pkg != nil && strings.HasPrefix(g.Pkg.Pkg.Path(), modPath) {
							for _, r := range *t.Referrers() {
								switch rr := r.(type) {
								case *ssa.Store:
									if rr.Addr == ssa.Value(t) {
										use(g, "stores to a field of")
									}
								case ssa.CallInstruction:
									use(g, "passes the address of a field of")
								}
							}
						}
					}
				}
			}
			for _, an := range f.AnonFuncs {
				visit(an)
			}
		}
		visit(fn)
	}
	sort.Strings(out)
	return out
}

func cmdLockOrder(args []string) {
	repo := "/repo"
	if len(args) > 0 {
		repo = args[0]
	}
	w, err := loadWorld(repo, allPkgs)
	if err != nil {
		fmt.Println("load:", err)
		return
	}
	lo := runLockOrder(w)
	var as []string
	for a := range lo.edges {
		as = append(as, a)
	}
	sort.Strings(as)
	for _, a := range as {
		var bs []string
		for b := range lo.edges[a] {
			bs = append(bs, b)
		}
		sort.Strings(bs)
		for _, b := range bs {
			fmt.Printf("EDGE %s -> %s : %s\n", a, b, lo.edges[a][b])
		}
	}
	for a, wit := range lo.selfs {
		fmt.Printf("SELF %s : %s\n", a, wit)
	}
	for _, g := range globalWrites(w) {
		fmt.Printf("GLOBAL %s\n", g)
	}
	for _, b := range lo.blocks {
		fmt.Printf("BLOCK %s\n", b)
	}
	for _, c := range lo.cycles() {
		fmt.Printf("CYCLE %s\n", strings.Join(c, " -> "))
	}
}
