package main

import (
	"fmt"
	"go/constant"
	"go/types"
	"strings"
)

type specErr string

// exprLit wraps an already evaluated value as an expression.
type exprLit struct{ V Val }

type specEnv struct {
	w      *World
	pkg    string
	vars   map[string]Val
	st     *State
	heap   map[string]string // heap used for reads (current)
	old    map[string]string // heap for old(...)
	result []Val
	pure   bool
}

func (e *specEnv) fail(f string, a ...interface{}) { panic(specErr(fmt.Sprintf(f, a...))) }

func (e *specEnv) evalSafe(x Expr) (v Val, err error) {
	defer func() {
		if r := recover(); r != nil {
			if se, ok := r.(specErr); ok {
				err = fmt.Errorf("%s", string(se))
				return
			}
			panic(r)
		}
	}()
	v = e.eval(x)
	return
}

func (e *specEnv) evalBool(x Expr) (string, error) {
	v, err := e.evalSafe(x)
	if err != nil {
		return "", err
	}
	if v.Sort != "Bool" {
		return "", fmt.Errorf("expression %s has sort %q, want Bool", exprString(x), v.Sort)
	}
	return v.S, nil
}

func (e *specEnv) heapTerm(class string) string {
	if e.heap == nil {
		e.fail("heap access to %s in a pure context", class)
	}
	if t, ok := e.heap[class]; ok {
		return t
	}
	if e.st != nil {
		return e.st.heapInit(e.heap, class)
	}
	e.fail("no heap for class %s", class)
	return ""
}

func refTerm(v Val) (string, bool) {
	switch v.Sort {
	case "Int":
		return v.S, true
	case "Iface":
		return "(iref " + v.S + ")", true
	case "Slice":
		return "(sarr " + v.S + ")", true // the backing array
	}
	if v.A != nil && (v.A.Kind == "obj" || v.A.Kind == "mem" || v.A.Kind == "arr") {
		return v.A.Ref, true
	}
	return "", false
}

func (e *specEnv) eval(x Expr) Val {
	w := e.w
	switch n := x.(type) {
	case EInt:
		s := n.V
		if strings.HasPrefix(s, "0x") {
			var v int64
			fmt.Sscanf(s, "0x%x", &v)
			s = fmt.Sprint(v)
		}
		return Val{S: s, Sort: "Int"}
	case EStr:
		return Val{S: sStr(n.V), Sort: "String"}
	case EBool:
		if n.V {
			return Val{S: "true", Sort: "Bool"}
		}
		return Val{S: "false", Sort: "Bool"}
	case ENil:
		return Val{S: "0", Sort: "Nil"}
	case EIdent:
		if v, ok := e.vars[n.Name]; ok {
			return v
		}
		if n.Name == "result" {
			if len(e.result) == 1 {
				return e.result[0]
			}
			return Val{Fs: e.result}
		}
		if strings.HasPrefix(n.Name, "$") {
			cls := "gg:" + n.Name
			srt, ok := w.classes[cls]
			if !ok {
				e.fail("unknown ghost global %s", n.Name)
			}
			return Val{S: e.heapTerm(cls), Sort: srt}
		}
		if src, ok := w.cs.Consts[n.Name]; ok {
			ex, err := parseSpec(src)
			if err != nil {
				e.fail("%v", err)
			}
			return e.eval(ex)
		}
		if c, t, ok := w.lookupConst(n.Name, e.pkg); ok {
			if s, ok := constTerm(c, t); ok {
				return Val{S: s, Sort: sortOf(t), T: t}
			}
		}
		if tp := w.tpkgs[e.pkg]; tp != nil && e.st != nil {
			if vo, ok := tp.Scope().Lookup(n.Name).(*types.Var); ok {
				a := &Addr{Kind: "mem", Class: "g:" + e.pkg + "." + n.Name, Ref: "0", Elem: vo.Type()}
				e.st.x.w.declClass(a.Class, "(Array Int "+sortOf(vo.Type())+")")
				return e.st.loadFrom(e.heap, a, vo.Type())
			}
		}
		e.fail("unknown identifier %s", n.Name)
	case EField:
		// qualified constant?
		if id, ok := n.X.(EIdent); ok {
			if _, isVar := e.vars[id.Name]; !isVar && id.Name != "result" {
				if _, isPkg := w.short[e.pkg][id.Name]; isPkg {
					if c, t, ok := w.lookupConst(id.Name+"."+n.Name, e.pkg); ok {
						if s, ok := constTerm(c, t); ok {
							return Val{S: s, Sort: sortOf(t), T: t}
						}
					}
					// package-level variable
					if full, ok := w.short[e.pkg][id.Name]; ok {
						if tp := w.tpkgs[full]; tp != nil {
							if vo, ok := tp.Scope().Lookup(n.Name).(*types.Var); ok && e.st != nil {
								a := &Addr{Kind: "mem", Class: "g:" + full + "." + n.Name, Ref: "0", Elem: vo.Type()}
								return e.st.loadFrom(e.heap, a, vo.Type())
							}
						}
					}
					e.fail("unknown qualified name %s.%s", id.Name, n.Name)
				}
			}
		}
		base := e.eval(n.X)
		if len(n.Name) > 0 && n.Name[0] >= '0' && n.Name[0] <= '9' {
			var i int
			fmt.Sscanf(n.Name, "%d", &i)
			if i >= len(base.Fs) {
				e.fail("tuple index %d out of range", i)
			}
			return base.Fs[i]
		}
		if strings.HasPrefix(n.Name, "$") {
			// an object whose type defines this ghost attribute over its real fields (ghostdef): the definition
			if base.T != nil && w.cs.GhostDefs != nil {
				if gd, ok := w.cs.GhostDefs[strings.TrimPrefix(namedKey(base.T), "*")+"."+n.Name]; ok {
					saved, had := e.vars[gd.Var]
					savedPkg := e.pkg
					e.vars[gd.Var] = base
					e.pkg = gd.Pkg
					v := e.eval(gd.E)
					e.pkg = savedPkg
					if had {
						e.vars[gd.Var] = saved
					} else {
						delete(e.vars, gd.Var)
					}
					return v
				}
			}
			cls := "ghost:" + n.Name
			srt, ok := w.classes[cls]
			if !ok {
				e.fail("unknown ghost field %s", n.Name)
			}
			r, ok := refTerm(base)
			if !ok {
				e.fail("ghost field %s on non-reference %s", n.Name, exprString(n.X))
			}
			return Val{S: "(select " + e.heapTerm(cls) + " " + r + ")", Sort: elemSortOfArray(srt)}
		}
		if base.T == nil {
			e.fail("field %s of untyped value %s", n.Name, exprString(n.X))
		}
		// struct value
		if st, ok := base.T.Underlying().(*types.Struct); ok && base.Fs != nil {
			for i := 0; i < st.NumFields(); i++ {
				if st.Field(i).Name() == n.Name {
					return base.Fs[i]
				}
			}
			e.fail("no field %s", n.Name)
		}
		// pointer to struct, or statically known object address
		var a *Addr
		var stT types.Type
		if base.A != nil && base.A.Kind == "obj" {
			a, stT = base.A, base.A.Elem
		} else if p, ok := base.T.Underlying().(*types.Pointer); ok {
			if _, ok := p.Elem().Underlying().(*types.Struct); ok {
				a, stT = &Addr{Kind: "obj", Ref: base.S, Elem: p.Elem()}, p.Elem()
			}
		}
		if a == nil {
			e.fail("field %s of non-struct %s (type %v)", n.Name, exprString(n.X), base.T)
		}
		st := stT.Underlying().(*types.Struct)
		for i := 0; i < st.NumFields(); i++ {
			if st.Field(i).Name() == n.Name {
				if e.st == nil {
					e.fail("heap read without state")
				}
				fa := e.st.fieldAddr(a, i)
				if fa.Kind == "obj" {
					// embedded struct: keep the address so that nested (ghost) fields can be selected
					return Val{T: st.Field(i).Type(), A: fa}
				}
				return e.st.loadFrom(e.heap, fa, st.Field(i).Type())
			}
		}
		e.fail("type %v has no field %s", stT, n.Name)
	case exprLit:
		return n.V
	case EIndex:
		if oc, ok := n.X.(ECall); ok && oc.Fn == "old" && e.old != nil {
			// old(m)[k]: the value stored in the old heap
			idx := e.eval(n.I)
			saved := e.heap
			e.heap = e.old
			v := e.eval(EIndex{oc.Args[0], exprLit{idx}})
			e.heap = saved
			return v
		}
		if id, ok := n.X.(EIdent); ok && e.st != nil && e.st.x.absRecv != nil {
			if ab, ok := w.cs.Abstractions[id.Name]; ok && ab.Type == e.st.x.absType {
				idx := e.eval(n.I)
				sub := &specEnv{w: w, pkg: ab.Pkg, vars: map[string]Val{ab.Var: *e.st.x.absRecv, ab.Key: idx}, st: e.st, heap: e.heap, old: e.old}
				return sub.eval(ab.E)
			}
		}
		base := e.eval(n.X)
		idx := e.eval(n.I)
		if strings.HasPrefix(base.Sort, "(Array ") {
			return Val{S: "(select " + base.S + " " + idx.S + ")", Sort: elemSortOfArray(base.Sort)}
		}
		if base.T != nil {
			switch u := base.T.Underlying().(type) {
			case *types.Map:
				// Go semantics: the zero value for absent keys and for a nil map
				pcls, vcls := e.st.mapClasses(u)
				vs := sortOf(u.Elem())
				raw := "(select (select " + e.heapTerm(vcls) + " " + base.S + ") " + idx.S + ")"
				pres := sAnd(sNot(sEq(base.S, "0")), "(select (select "+e.heapTerm(pcls)+" "+base.S+") "+idx.S+")")
				return Val{S: sIte(pres, raw, e.st.zeroVal(u.Elem()).S), Sort: vs, T: u.Elem()}
			case *types.Slice:
				a := e.st.elemAddr(base, idx.S, u.Elem())
				return e.st.loadFrom(e.heap, a, u.Elem())
			}
		}
		if base.Sort == "String" {
			// s[i]: the byte at position i (strings are sequences of bytes)
			return Val{S: "(str.to_code (str.at " + base.S + " " + idx.S + "))", Sort: "Int"}
		}
		e.fail("cannot index %s", exprString(n.X))
	case EUn:
		v := e.eval(n.X)
		switch n.Op {
		case "!":
			if v.Sort != "Bool" {
				e.fail("! on non-bool %s", exprString(n.X))
			}
			return Val{S: sNot(v.S), Sort: "Bool"}
		case "-":
			return Val{S: "(- " + v.S + ")", Sort: "Int"}
		}
	case EBin:
		return e.evalBin(n)
	case ECall:
		return e.evalCall(n)
	case EQuant:
		srt := specSort(n.Sort)
		if srt == "" {
			e.fail("unknown sort %s", n.Sort)
		}
		saved, had := e.vars[n.Var]
		bv := "q!" + n.Var
		e.vars[n.Var] = Val{S: bv, Sort: srt}
		body := e.eval(n.Body)
		if had {
			e.vars[n.Var] = saved
		} else {
			delete(e.vars, n.Var)
		}
		q := "exists"
		if n.Forall {
			q = "forall"
		}
		return Val{S: fmt.Sprintf("(%s ((%s %s)) %s)", q, bv, srt, body.S), Sort: "Bool"}
	case ESet:
		e.fail("set literal only allowed right of `in`")
	}
	e.fail("cannot evaluate %s", exprString(x))
	return Val{}
}

func elemSortOfArray(s string) string {
	// (Array K V) -> V
	if !strings.HasPrefix(s, "(Array ") {
		return ""
	}
	inner := s[7 : len(s)-1]
	// K is first balanced token
	d := 0
	for i := 0; i < len(inner); i++ {
		switch inner[i] {
		case '(':
			d++
		case ')':
			d--
		case ' ':
			if d == 0 {
				return inner[i+1:]
			}
		}
	}
	return ""
}
func keySortOfArray(s string) string {
	inner := s[7 : len(s)-1]
	d := 0
	for i := 0; i < len(inner); i++ {
		switch inner[i] {
		case '(':
			d++
		case ')':
			d--
		case ' ':
			if d == 0 {
				return inner[:i]
			}
		}
	}
	return ""
}

// coerceNil adapts the literal nil to the sort of the other operand.
func coerceNil(a, b Val) (Val, Val) {
	fix := func(n Val, o Val) Val {
		switch o.Sort {
		case "Iface":
			return Val{S: "(mk-iface 0 0)", Sort: "Iface"}
		case "Int":
			return Val{S: "0", Sort: "Int"}
		}
		return n
	}
	if a.Sort == "Nil" && b.Sort != "Nil" {
		a = fix(a, b)
	}
	if b.Sort == "Nil" && a.Sort != "Nil" {
		b = fix(b, a)
	}
	return a, b
}

func (e *specEnv) evalBin(n EBin) Val {
	switch n.Op {
	case "&&", "||", "==>", "<==>":
		l, r := e.eval(n.L), e.eval(n.R)
		if l.Sort != "Bool" || r.Sort != "Bool" {
			e.fail("boolean operator %s on non-bool operands in %s", n.Op, exprString(n))
		}
		switch n.Op {
		case "&&":
			return Val{S: sAnd(l.S, r.S), Sort: "Bool"}
		case "||":
			return Val{S: sOr(l.S, r.S), Sort: "Bool"}
		case "==>":
			return Val{S: sImp(l.S, r.S), Sort: "Bool"}
		default:
			return Val{S: sEq(l.S, r.S), Sort: "Bool"}
		}
	case "in":
		if oc, ok := n.R.(ECall); ok && oc.Fn == "old" && e.old != nil {
			// k in old(m): membership in the map as it was in the old heap
			saved := e.heap
			l := e.eval(n.L)
			e.heap = e.old
			v := e.evalBin(EBin{"in", exprLit{l}, oc.Args[0]})
			e.heap = saved
			return v
		}
		l := e.eval(n.L)
		if set, ok := n.R.(ESet); ok {
			var dj []string
			for _, el := range set.Elems {
				v := e.eval(el)
				l2, v2 := coerceNil(l, v)
				dj = append(dj, sEq(l2.S, v2.S))
			}
			return Val{S: sOr(dj...), Sort: "Bool"}
		}
		r := e.eval(n.R)
		if strings.HasPrefix(r.Sort, "(Array ") && elemSortOfArray(r.Sort) == "Bool" {
			return Val{S: "(select " + r.S + " " + l.S + ")", Sort: "Bool"}
		}
		if r.T != nil {
			if m, ok := r.T.Underlying().(*types.Map); ok {
				pcls, _ := e.st.mapClasses(m)
				return Val{S: sAnd(sNot(sEq(r.S, "0")), "(select (select "+e.heapTerm(pcls)+" "+r.S+") "+l.S+")"), Sort: "Bool"}
			}
		}
		e.fail("`in` needs a set, ghost set or map on the right: %s", exprString(n))
	}
	l, r := e.eval(n.L), e.eval(n.R)
	l, r = coerceNil(l, r)
	switch n.Op {
	case "==", "!=":
		var eq string
		if l.Sort == "Slice" && r.Sort == "Nil" {
			eq = sEq("(sarr "+l.S+")", "0")
		} else if r.Sort == "Slice" && l.Sort == "Nil" {
			eq = sEq("(sarr "+r.S+")", "0")
		} else {
			if l.Sort != r.Sort || l.Sort == "" {
				e.fail("comparison of different sorts (%s vs %s) in %s", l.Sort, r.Sort, exprString(n))
			}
			eq = sEq(l.S, r.S)
		}
		if n.Op == "!=" {
			eq = sNot(eq)
		}
		return Val{S: eq, Sort: "Bool"}
	case "<", "<=", ">", ">=":
		if l.Sort == "String" && r.Sort == "String" {
			switch n.Op {
			case "<":
				return Val{S: "(str.< " + l.S + " " + r.S + ")", Sort: "Bool"}
			case "<=":
				return Val{S: "(str.<= " + l.S + " " + r.S + ")", Sort: "Bool"}
			case ">":
				return Val{S: "(str.< " + r.S + " " + l.S + ")", Sort: "Bool"}
			default:
				return Val{S: "(str.<= " + r.S + " " + l.S + ")", Sort: "Bool"}
			}
		}
		if l.Sort != "Int" || r.Sort != "Int" {
			e.fail("ordering on non-int in %s", exprString(n))
		}
		return Val{S: "(" + n.Op + " " + l.S + " " + r.S + ")", Sort: "Bool"}
	case "+", "-", "*":
		if l.Sort == "String" && n.Op == "+" {
			return Val{S: "(str.++ " + l.S + " " + r.S + ")", Sort: "String"}
		}
		if l.Sort != "Int" || r.Sort != "Int" {
			e.fail("arithmetic on non-int in %s", exprString(n))
		}
		return Val{S: "(" + n.Op + " " + l.S + " " + r.S + ")", Sort: "Int"}
	case "/":
		return Val{S: "(div " + l.S + " " + r.S + ")", Sort: "Int"}
	case "%":
		return Val{S: "(mod " + l.S + " " + r.S + ")", Sort: "Int"}
	case "++":
		return Val{S: "(str.++ " + l.S + " " + r.S + ")", Sort: "String"}
	}
	e.fail("unknown operator %s", n.Op)
	return Val{}
}

func (e *specEnv) evalCall(n ECall) Val {
	w := e.w
	switch n.Fn {
	case "old":
		if e.old == nil {
			e.fail("old() not available here")
		}
		saved := e.heap
		e.heap = e.old
		v := e.eval(n.Args[0])
		e.heap = saved
		return v
	case "len":
		v := e.eval(n.Args[0])
		switch v.Sort {
		case "String":
			return Val{S: "(str.len " + v.S + ")", Sort: "Int"}
		case "Slice":
			return Val{S: "(slen " + v.S + ")", Sort: "Int"}
		}
		if v.T != nil {
			if m, ok := v.T.Underlying().(*types.Map); ok {
				w.declUF("maplen", "(declare-fun maplen ((Array "+sortOf(m.Key())+" Bool)) Int)")
				pcls, _ := e.st.mapClasses(m)
				return Val{S: "(maplen (select " + e.heapTerm(pcls) + " " + v.S + "))", Sort: "Int"}
			}
		}
		e.fail("len of %s", exprString(n.Args[0]))
	case "isnil":
		v := e.eval(n.Args[0])
		switch v.Sort {
		case "Int":
			return Val{S: sEq(v.S, "0"), Sort: "Bool"}
		case "Iface":
			return Val{S: sEq("(itag "+v.S+")", "0"), Sort: "Bool"}
		case "Slice":
			return Val{S: sEq("(sarr "+v.S+")", "0"), Sort: "Bool"}
		}
		e.fail("isnil on %s", v.Sort)
	case "ref":
		v := e.eval(n.Args[0])
		r, ok := refTerm(v)
		if !ok {
			e.fail("ref() of non-reference")
		}
		return Val{S: r, Sort: "Int"}
	case "deref":
		// deref(p): value a pointer-to-scalar points to
		v := e.eval(n.Args[0])
		if v.T == nil {
			e.fail("deref of untyped value")
		}
		p, ok := v.T.Underlying().(*types.Pointer)
		if !ok {
			e.fail("deref of non-pointer")
		}
		a := e.st.addrOfPtr(v)
		_ = p
		return e.st.loadFrom(e.heap, a, p.Elem())
	case "called":
		// called(f): on this path a call of a function / method named f has happened (exact: paths are explored one by one)
		if e.st == nil || len(n.Args) != 1 {
			e.fail("called(name) needs a path state")
		}
		if e.st.called[exprString(n.Args[0])] {
			return Val{S: "true", Sort: "Bool"}
		}
		return Val{S: "false", Sort: "Bool"}
	case "visited":
		// visited(k): the enclosing range-over-map loop has already produced key k (loop invariants only)
		it, ok := e.vars["$iter"]
		if !ok || len(n.Args) != 1 {
			e.fail("visited(k) is only available in the invariant of a range-over-map loop")
		}
		k := e.eval(n.Args[0])
		cls := "ghost:$visited:" + k.Sort
		if _, ok := e.w.classes[cls]; !ok {
			e.fail("visited(k): no map with key sort %s is iterated", k.Sort)
		}
		return Val{S: "(select (select " + e.heapTerm(cls) + " " + it.S + ") " + k.S + ")", Sort: "Bool"}
	case "indexof":
		// indexof(s, sep): position of the first occurrence of sep in s, -1 if there is none
		a, b := e.eval(n.Args[0]), e.eval(n.Args[1])
		return Val{S: "(str.indexof " + a.S + " " + b.S + " 0)", Sort: "Int"}
	case "substr":
		// substr(s, from, n): n bytes of s starting at from
		a, b, c := e.eval(n.Args[0]), e.eval(n.Args[1]), e.eval(n.Args[2])
		return Val{S: "(str.substr " + a.S + " " + b.S + " " + c.S + ")", Sort: "String"}
	case "spawncount":
		// spawncount(): the number of `go` statements executed on this path
		if e.st == nil {
			e.fail("spawncount() needs a path state")
		}
		return Val{S: itoa(len(e.st.spawned)), Sort: "Int"}
	case "callcount":
		if e.st == nil || len(n.Args) != 1 {
			e.fail("callcount(name) needs a path state")
		}
		return Val{S: itoa(e.st.ncalls[exprString(n.Args[0])]), Sort: "Int"}
	case "lasterr":
		// lasterr(f): the error (last result) of the most recent call of f on this path; nil if f was not called
		if e.st == nil || len(n.Args) != 1 {
			e.fail("lasterr(name) needs a path state")
		}
		if v, ok := e.st.lastRet[exprString(n.Args[0])]; ok {
			if len(v.Fs) > 0 && v.Fs[len(v.Fs)-1].Sort == "Iface" {
				return v.Fs[len(v.Fs)-1]
			}
			if v.Sort == "Iface" {
				return v
			}
			e.fail("lasterr(%s): the function does not return an error", exprString(n.Args[0]))
		}
		return Val{S: "(mk-iface 0 0)", Sort: "Iface"}
	case "lastresult":
		// lastresult(f): what the most recent call of f on this path returned (false if f was not called: use with called(f))
		if e.st == nil || len(n.Args) < 1 || len(n.Args) > 2 {
			e.fail("lastresult(name) needs a path state")
		}
		if v, ok := e.st.lastRet[exprString(n.Args[0])]; ok && v.S != "" {
			return v
		}
		if len(n.Args) == 2 {
			return e.eval(n.Args[1]) // lastresult(f, default): the default when f was not called on this path
		}
		return Val{S: "false", Sort: "Bool"}
	case "contains":
		a, b := e.eval(n.Args[0]), e.eval(n.Args[1])
		return Val{S: "(str.contains " + a.S + " " + b.S + ")", Sort: "Bool"}
	case "prefixof":
		a, b := e.eval(n.Args[0]), e.eval(n.Args[1])
		return Val{S: "(str.prefixof " + a.S + " " + b.S + ")", Sort: "Bool"}
	case "ite":
		c, a, b := e.eval(n.Args[0]), e.eval(n.Args[1]), e.eval(n.Args[2])
		a, b = coerceNil(a, b)
		return Val{S: sIte(c.S, a.S, b.S), Sort: a.Sort, T: a.T}
	case "held":
		// held(c.mux): the mutex is in the lockset
		if e.st == nil {
			e.fail("held() without state")
		}
		key := exprString(n.Args[0])
		_ = key
		e.fail("held() not supported in this position")
	case "bytes":
		// bytes(b): the contents of a byte slice as a string value (uninterpreted in terms of the content array)
		v := e.eval(n.Args[0])
		if v.Sort != "Slice" || e.st == nil {
			e.fail("bytes() of non-slice")
		}
		w.declUF("bytes2str", "(declare-fun bytes2str ((Array Int Int) Int Int) String)")
		cls := e.st.elemClass(types.Typ[types.Uint8])
		return Val{S: "(bytes2str (select " + e.heapTerm(cls) + " (sarr " + v.S + ")) (soff " + v.S + ") (slen " + v.S + "))", Sort: "String"}
	case "hex":
		// hex(b): lower-case hex rendering of a byte slice (same uninterpreted function fmt.Sprintf("%0x") uses)
		v := e.eval(n.Args[0])
		w.declUF("hexstr", "(declare-fun hexstr ((Array Int Int) Int Int) String)")
		if at, ok := arrayOf(v); ok && v.Row != "" {
			return Val{S: fmt.Sprintf("(hexstr %s 0 %d)", v.Row, at.Len()), Sort: "String"}
		}
		if v.Sort != "Slice" || e.st == nil {
			e.fail("hex() of non-slice")
		}
		cls := e.st.elemClass(types.Typ[types.Uint8])
		return Val{S: "(hexstr (select " + e.heapTerm(cls) + " (sarr " + v.S + ")) (soff " + v.S + ") (slen " + v.S + "))", Sort: "String"}
	case "funcis":
		// funcis(f, "name"): the function value f is the named function / bound method
		v := e.eval(n.Args[0])
		nm, ok := n.Args[1].(EStr)
		if !ok || e.st == nil {
			e.fail("funcis(f, \"name\")")
		}
		full := nm.V
		for short, path := range w.short[e.pkg] {
			full = strings.ReplaceAll(full, "*"+short+".", "*"+path+".")
		}
		fn := quoteSym("fn:" + full)
		w.declUF(fn, "(declare-fun "+fn+" () Int)")
		t := v.S
		if t == "" && (v.Clo != nil || v.Fn != nil) {
			t = e.st.x.funcTerm(e.st, v)
		}
		return Val{S: sEq(t, fn), Sort: "Bool"}
	case "fresh":
		// fresh(x): the slice/pointer x refers to memory allocated during this call (nothing that existed at
		// entry, such as a pooled or cached buffer, is handed on)
		v := e.eval(n.Args[0])
		if e.st == nil {
			e.fail("fresh() without state")
		}
		r := v.S
		if v.Sort == "Slice" {
			r = "(sarr " + v.S + ")"
		} else if v.Sort == "Iface" {
			r = "(iref " + v.S + ")"
		}
		if c, ok := e.st.appendCond[v.S]; ok && v.Sort == "Slice" {
			// the result of append is new memory only if the append could not happen in place
			return Val{S: sAnd("(> "+r+" "+e.st.x.initAlloc+")", c), Sort: "Bool"}
		}
		return Val{S: "(> " + r + " " + e.st.x.initAlloc + ")", Sort: "Bool"}
	case "cast":
		// cast(x, T): view a reference (pointer, interface payload or ghost ref) as *T, T a struct type name
		v := e.eval(n.Args[0])
		r, ok := refTerm(v)
		if !ok {
			e.fail("cast of non-reference")
		}
		tn := exprString(n.Args[1])
		var pkg *types.Package
		name := tn
		if i := strings.LastIndex(tn, "."); i >= 0 {
			name = tn[i+1:]
			if full, ok := w.short[e.pkg][tn[:i]]; ok {
				pkg = w.tpkgs[full]
			}
		} else {
			pkg = w.tpkgs[e.pkg]
		}
		if pkg == nil {
			e.fail("cast: unknown package in %s", tn)
		}
		o := pkg.Scope().Lookup(name)
		if o == nil {
			e.fail("cast: unknown type %s", tn)
		}
		return Val{T: types.NewPointer(o.Type()), S: r, Sort: "Int"}
	case "typeis":
		// typeis(x, "pkg.Type") dynamic type test on interface value
		v := e.eval(n.Args[0])
		s, ok := n.Args[1].(EStr)
		if !ok || v.Sort != "Iface" {
			e.fail("typeis(iface, \"type\")")
		}
		id, ok := w.typeIDs[s.V]
		if !ok {
			// allocate lazily by name
			id = len(w.typeByID)
			w.typeIDs[s.V] = id
			w.typeByID = append(w.typeByID, nil)
		}
		return Val{S: sEq("(itag "+v.S+")", fmt.Sprint(id)), Sort: "Bool"}
	}
	if pd, ok := w.specFuns[n.Fn]; ok {
		if len(n.Args) != len(pd.Params) {
			e.fail("%s expects %d arguments", n.Fn, len(pd.Params))
		}
		var as []string
		for i, a := range n.Args {
			v := e.eval(a)
			if v.Sort == "Nil" {
				v = Val{S: "0", Sort: "Int"}
			}
			if v.Sort != pd.Sorts[i] {
				e.fail("%s: argument %d has sort %s, want %s", n.Fn, i, v.Sort, pd.Sorts[i])
			}
			as = append(as, v.S)
		}
		if len(as) == 0 {
			return Val{S: n.Fn, Sort: pd.Ret}
		}
		return Val{S: "(" + n.Fn + " " + strings.Join(as, " ") + ")", Sort: pd.Ret}
	}
	e.fail("unknown spec function %s", n.Fn)
	return Val{}
}

var _ = constant.MakeBool

// arrayOf reports whether v is a Go array value (whose contents, if tracked, are v.Row).
func arrayOf(v Val) (*types.Array, bool) {
	if v.T == nil || v.BI != "array" {
		return nil, false
	}
	at, ok := v.T.Underlying().(*types.Array)
	return at, ok
}
