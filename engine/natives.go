package main

import (
	"go/token"
	"go/types"
	"strings"

	"golang.org/x/tools/go/ssa"
)

// nativeDoc lists the assumed behaviour of library functions modelled inside the engine
// (reported in evidence as assumed contracts on dependencies).
var nativeDoc = map[string]string{
	"(*sync.Mutex).Lock/Unlock":   "mutual exclusion; tracked as a path-sensitive lockset, no heap effect",
	"(*sync.Once).Do":             "runs f iff ghost $done is false, then sets $done",
	"encoding/json.Unmarshal":     "target havoc'd to ANY value of its Go type (superset of decodable values); len(data)==0 => error",
	"encoding/json.Marshal":       "returns an arbitrary byte slice and an arbitrary error",
	"errors.New/fmt.Errorf":       "returns a fresh non-nil error",
	"fmt.Sprintf/Sprint":          "%x of a byte slice: the uninterpreted hex rendering; %v/%t/%s/%d of one simple operand: its standard rendering; a constant format of literal text and %s/%v verbs over plain strings: the concatenation; anything else: an arbitrary string",
	"strings.Contains/HasPrefix":  "SMT str.contains / str.prefixof",
	"strings.ReplaceAll/ToLower":  "uninterpreted deterministic string functions",
	"bytes.Contains":              "arbitrary bool (deterministic)",
	"time.After":                  "returns a channel; the receive is a skip (plus the interference clause of the contract, if any); in synchronously running code the duration must be provably at most 60 s",
	"logging.Log":                 "returns a non-nil logger; logger methods have no effect",
	"util.Ptr":                    "allocates a fresh cell holding the argument",
	"math/rand.Intn":              "panics iff n <= 0 (obligation); returns 0 <= r < n",
}

func (x *Exec) native(st *State, fr *Frame, callee *ssa.Function, key string, argv []Val, rt types.Type, pos token.Pos, k func(*State, Val)) bool {
	w := x.w
	freshRet := func(hint string) Val {
		if t, ok := rt.(*types.Tuple); ok && t.Len() == 0 {
			return voidVal()
		}
		return st.freshVal(hint, rt)
	}
	strUF := func(name string, args ...Val) Val {
		var ss, as []string
		for _, a := range args {
			ss = append(ss, a.Sort)
			as = append(as, a.S)
		}
		fn := "uf_" + name
		w.declUF(fn, "(declare-fun "+fn+" ("+strings.Join(ss, " ")+") "+sortOf(rt)+")")
		v := Val{T: rt, S: "(" + fn + " " + strings.Join(as, " ") + ")", Sort: sortOf(rt)}
		st.assumeTypeInv(v)
		return v
	}
	nonNilErr := func() Val {
		r := st.newRef("err")
		id := w.typeID(types.NewPointer(types.Universe.Lookup("error").Type()))
		name := st.define("err", "Iface", "(mk-iface "+itoa(id)+" "+r+")")
		return Val{T: rt, S: name, Sort: "Iface"}
	}
	if callee.Name() == "init" && callee.Signature.Recv() == nil && callee.Signature.Params().Len() == 0 {
		k(st, voidVal()) // initialisers of imported packages: outside the verified state
		return true
	}
	switch key {
	case "(*sync.Mutex).Lock", "(*sync.RWMutex).Lock", "(*sync.RWMutex).RLock":
		x.lockOp(st, argv[0], true, pos)
		k(st, voidVal())
		return true
	case "(*sync.Mutex).Unlock", "(*sync.RWMutex).Unlock", "(*sync.RWMutex).RUnlock":
		x.lockOp(st, argv[0], false, pos)
		k(st, voidVal())
		return true
	case "(*sync.Once).Do":
		once := st.addrOfPtr(argv[0])
		f := argv[1]
		if f.Clo == nil && f.Fn == nil {
			x.reject("Once.Do with unknown function")
		}
		h := st.hget("ghost:$done")
		done := "(select " + h + " " + once.Ref + ")"
		st2 := st.clone()
		fr2 := fr // frames are not mutated by the continuation before the fork completes
		_ = fr2
		// not yet done: run f, then mark
		st.assume(sNot(done))
		st.trace = append(st.trace, "once: first call")
		fn := f.Fn
		var binds []Val
		if f.Clo != nil {
			fn, binds = f.Clo.Fn, f.Clo.Binds
		}
		x.runInline(st, fn, nil, binds, fr.depth+1, func(st *State, _ Val) {
			st.hset("ghost:$done", "(store "+st.hget("ghost:$done")+" "+once.Ref+" true)")
			k(st, voidVal())
		})
		st2.assume(done)
		st2.trace = append(st2.trace, "once: already done")
		k(st2, voidVal())
		return true
	case "github.com/enbility/ship-go/util.Ptr":
		t := rt.(*types.Pointer).Elem()
		p := st.allocObject(t, "ptr", false)
		st.storeAt(p.A, argv[0], t)
		k(st, p)
		return true
	case "github.com/enbility/ship-go/logging.Log":
		r := st.fresh("logger", "Iface")
		st.assume(sNot(sEq("(itag "+r+")", "0")))
		k(st, Val{T: rt, S: r, Sort: "Iface"})
		return true
	case "time.After":
		// a wait in code that runs synchronously (not the body of a goroutine started for the purpose) is bounded by a
		// constant: a duration computed from peer-controlled data would let the peer park the caller - for the
		// receive path that is "blocks its receive loop indefinitely" (C08)
		if x.fc != nil && x.fc.Kind != "closure" && len(argv) == 1 && argv[0].Sort == "Int" {
			x.oblige(st, "safety:wait", x.site("After", pos), "", x.safetyTags, "(<= "+argv[0].S+" 60000000000)", pos, "synchronous wait is bounded (at most 60 s)")
		}
		k(st, freshRet("timech"))
		return true
	case "errors.New", "fmt.Errorf":
		k(st, nonNilErr())
		return true
	case "fmt.Sprintf", "fmt.Sprint", "fmt.Sprintln":
		// fmt.Sprintf("%0x", bytes): the lower-case hex rendering of the byte slice (uninterpreted function hexstr)
		if key == "fmt.Sprintf" && (argv[0].S == sStr("%0x") || argv[0].S == sStr("%x")) && len(argv) == 2 && argv[1].Sort == "Slice" {
			var et types.Type = types.NewInterfaceType(nil, nil)
			if sl, ok := argv[1].T.Underlying().(*types.Slice); ok {
				et = sl.Elem()
			}
			arr, idx := "(sarr "+argv[1].S+")", "(+ (soff "+argv[1].S+") 0)"
			if sd, ok := st.last["slice@"+argv[1].S]; ok && sd.Sort == "0" {
				arr, idx = sd.S, "0" // the variadic argument slice is a[:] of a known array
			}
			el := st.load(st.elemAddrOf(arr, idx, et), et)
			if c, ok := st.conc[el.S]; ok && c.Sort == "Slice" {
				k(st, Val{T: rt, S: x.hexOf(st, c), Sort: "String"})
				return true
			}
		}
		// fmt.Sprintf("%v", x) for one boolean / string / integer operand: its standard rendering
		if key == "fmt.Sprintf" && (argv[0].S == sStr("%v") || argv[0].S == sStr("%t") || argv[0].S == sStr("%s") || argv[0].S == sStr("%d")) && len(argv) == 2 && argv[1].Sort == "Slice" {
			var et types.Type = types.NewInterfaceType(nil, nil)
			if sl, ok := argv[1].T.Underlying().(*types.Slice); ok {
				et = sl.Elem()
			}
			arr, idx := "(sarr "+argv[1].S+")", "(+ (soff "+argv[1].S+") 0)"
			if sd, ok := st.last["slice@"+argv[1].S]; ok && sd.Sort == "0" {
				arr, idx = sd.S, "0"
			}
			el := st.load(st.elemAddrOf(arr, idx, et), et)
			if c, ok := st.conc[el.S]; ok {
				f := argv[0].S
				switch {
				case c.Sort == "Bool" && (f == sStr("%v") || f == sStr("%t")):
					k(st, Val{T: rt, S: sIte(c.S, sStr("true"), sStr("false")), Sort: "String"})
					return true
				case c.Sort == "String" && (f == sStr("%v") || f == sStr("%s")):
					if b, ok := c.T.Underlying().(*types.Basic); ok && b.Kind() == types.String {
						k(st, Val{T: rt, S: c.S, Sort: "String"})
						return true
					}
				case c.Sort == "Int" && (f == sStr("%v") || f == sStr("%d")):
					if b, ok := c.T.(*types.Basic); ok && b.Info()&types.IsInteger != 0 {
						k(st, strUF("Itoa", c))
						return true
					}
				}
			}
		}
		// fmt.Sprintf with a constant format made of literal text and %s / %v verbs, every operand a plain string:
		// the concatenation (any other verb or operand kind: an arbitrary string, as before)
		if key == "fmt.Sprintf" && len(argv) == 2 && argv[1].Sort == "Slice" && strings.HasPrefix(argv[0].S, "\"") && !strings.Contains(argv[0].S, "\\") && !strings.Contains(argv[0].S[1:len(argv[0].S)-1], "\"") {
			if parts, n, ok := splitFormat(argv[0].S[1 : len(argv[0].S)-1]); ok && n >= 2 {
				var et types.Type = types.NewInterfaceType(nil, nil)
				if sl, ok := argv[1].T.Underlying().(*types.Slice); ok {
					et = sl.Elem()
				}
				arr, known := "", false
				if sd, ok := st.last["slice@"+argv[1].S]; ok && sd.Sort == "0" {
					arr, known = sd.S, true
				}
				var ops []string
				for i := 0; known && i < n; i++ {
					el := st.load(st.elemAddrOf(arr, itoa(i), et), et)
					c, ok := st.conc[el.S]
					if !ok || c.Sort != "String" {
						known = false
						break
					}
					if b, ok := c.T.Underlying().(*types.Basic); !ok || b.Kind() != types.String {
						known = false
						break
					}
					ops = append(ops, c.S)
				}
				if known {
					var terms []string
					for i, lit := range parts {
						if lit != "" {
							terms = append(terms, sStr(lit))
						}
						if i < len(ops) {
							terms = append(terms, ops[i])
						}
					}
					out := terms[0]
					if len(terms) > 1 {
						out = "(str.++ " + strings.Join(terms, " ") + ")"
					}
					k(st, Val{T: rt, S: out, Sort: "String"})
					return true
				}
			}
		}
		k(st, freshRet("str"))
		return true
	case "strings.Contains":
		k(st, Val{T: rt, S: "(str.contains " + argv[0].S + " " + argv[1].S + ")", Sort: "Bool"})
		return true
	case "strings.HasPrefix":
		k(st, Val{T: rt, S: "(str.prefixof " + argv[1].S + " " + argv[0].S + ")", Sort: "Bool"})
		return true
	case "strings.HasSuffix":
		k(st, Val{T: rt, S: "(str.suffixof " + argv[1].S + " " + argv[0].S + ")", Sort: "Bool"})
		return true
	case "strings.ReplaceAll":
		k(st, strUF("ReplaceAll", argv...))
		return true
	case "strings.ToLower":
		k(st, strUF("ToLower", argv...))
		return true
	case "strings.ToUpper":
		k(st, strUF("ToUpper", argv...))
		return true
	case "strings.TrimPrefix", "strings.TrimSuffix", "strings.TrimSpace", "strings.Trim":
		k(st, strUF(callee.Name(), argv...))
		return true
	case "strconv.Itoa":
		k(st, strUF("Itoa", argv...))
		return true
	case "bytes.Contains":
		k(st, freshRet("contains"))
		return true
	case "encoding/json.Unmarshal":
		if r := x.havocDeep(st, argv[1]); r != "" {
			st.heap["gg:$decoded"] = r // ghost: the object most recently decoded into
		}
		e := st.freshVal("jsonerr", rt)
		st.assume(sImp(sEq("(slen "+argv[0].S+")", "0"), sNot(sEq("(itag "+e.S+")", "0"))))
		k(st, e)
		return true
	case "encoding/json.Marshal":
		k(st, freshRet("json"))
		return true
	case "errors.Is":
		r := freshRet("is")
		// errors.Is(nil, nil) and errors.Is(x, x) are true; errors.Is(non-nil, nil) is false
		st.assume(sImp(sEq(argv[0].S, argv[1].S), r.S))
		st.assume(sImp(sAnd(sNot(sEq("(itag "+argv[0].S+")", "0")), sEq("(itag "+argv[1].S+")", "0")), sNot(r.S)))
		k(st, r)
		return true
	case "(time.Duration).Milliseconds":
		k(st, Val{T: rt, S: "(ite (>= " + argv[0].S + " 0) (div " + argv[0].S + " 1000000) (- (div (- " + argv[0].S + ") 1000000)))", Sort: "Int"})
		return true
	case "math/rand.Intn":
		x.oblige(st, "safety:panic", x.site("rand.Intn", pos), "", x.safetyTags, "(> "+argv[0].S+" 0)", pos, "rand.Intn panics for n <= 0")
		r := freshRet("rand")
		st.assume(sAnd("(<= 0 "+r.S+")", "(< "+r.S+" "+argv[0].S+")"))
		k(st, r)
		return true
	}
	return false
}

func itoa(i int) string {
	return sInt(int64(i))
}

// lockOp maintains the path-sensitive lockset.
func (x *Exec) lockOp(st *State, m Val, acquire bool, pos token.Pos) {
	a := st.addrOfPtr(m)
	key := a.Ref
	if acquire {
		st.locks[key]++
		st.lockLog = append(st.lockLog, "lock "+key)
		if x.lockMode {
			x.lockAcquire(st, key, pos)
		}
	} else {
		if st.locks[key] > 0 {
			st.locks[key]--
		}
		st.lockLog = append(st.lockLog, "unlock "+key)
	}
}

// splitFormat splits a format string that uses only %s and %v verbs into its literal parts (len = verbs+1).
func splitFormat(f string) (parts []string, verbs int, ok bool) {
	cur := ""
	for i := 0; i < len(f); i++ {
		if f[i] != '%' {
			cur += string(f[i])
			continue
		}
		if i+1 >= len(f) {
			return nil, 0, false
		}
		switch f[i+1] {
		case 's', 'v':
			parts = append(parts, cur)
			cur = ""
			verbs++
			i++
		case '%':
			cur += "%"
			i++
		default:
			return nil, 0, false
		}
	}
	parts = append(parts, cur)
	return parts, verbs, true
}

// hexOf is the uninterpreted hex rendering of a byte slice's contents.
func (x *Exec) hexOf(st *State, sl Val) string {
	x.w.declUF("hexstr", "(declare-fun hexstr ((Array Int Int) Int Int) String)")
	cls := st.elemClass(types.Typ[types.Uint8])
	return "(hexstr (select " + st.hget(cls) + " (sarr " + sl.S + ")) (soff " + sl.S + ") (slen " + sl.S + "))"
}
