package main

import "go/token"

// lockAccess / lockAcquire implement the lock-discipline obligations of C20 (see lockset mode).
func (x *Exec) lockAccess(st *State, a *Addr, write bool, pos token.Pos) {}
func (x *Exec) lockAcquire(st *State, key string, pos token.Pos)         {}
