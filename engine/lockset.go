package main

// Lock-discipline analysis for C20 (data-race freedom on the declared fields).
//
// For every function of the module's packages a forward must-hold lockset is computed over the SSA
// control-flow graph (intersection at joins, fixpoint over loops). Every access to a field declared
// `guarded T.f by T.m` must happen with the mutex m of the SAME base object in the lockset; for guarded
// fields of map or slice type the operations on the loaded value (lookup, update, delete, range, len,
// append, index) are accesses too. `immutable T.f` fields may only be stored to in a function on an object
// it allocated itself. If every access to a location holds one common lock, no two conflicting accesses
// are concurrent - for all schedules. Obligations are decided syntactically (no SMT).

import (
	"fmt"
	"go/token"
	"go/types"
	"sort"
	"strings"

	"golang.org/x/tools/go/ssa"
)

func (x *Exec) lockAccess(st *State, a *Addr, write bool, pos token.Pos) {}
func (x *Exec) lockAcquire(st *State, key string, pos token.Pos)         {}

type lockSet map[string]bool // key: base + "." + mutex field ; value: true = write lock (or plain mutex)

func (a lockSet) clone() lockSet {
	n := lockSet{}
	for k, v := range a {
		n[k] = v
	}
	return n
}

func intersect(a, b lockSet) lockSet {
	n := lockSet{}
	for k, v := range a {
		if w, ok := b[k]; ok {
			n[k] = v && w
		}
	}
	return n
}

func equalSets(a, b lockSet) bool {
	if len(a) != len(b) {
		return false
	}
	for k, v := range a {
		if w, ok := b[k]; !ok || w != v {
			return false
		}
	}
	return true
}

// baseKey canonicalises the SSA value a field address is based on.
func baseKey(v ssa.Value) string {
	switch t := v.(type) {
	case *ssa.Parameter:
		return "p:" + t.Name()
	case *ssa.FreeVar:
		return "fv:" + t.Name()
	case *ssa.UnOp:
		if t.Op == token.MUL {
			switch c := t.X.(type) {
			case *ssa.FreeVar:
				return "p:" + c.Name() // *c of a captured cell: the captured variable
			case *ssa.Alloc:
				if c.Comment != "" {
					return "p:" + c.Comment // address-taken copy of a parameter / local of that name
				}
			case *ssa.FieldAddr:
				return baseKey(c.X) + "." + fieldName(c)
			}
		}
	case *ssa.FieldAddr:
		return baseKey(t.X) + "." + fieldName(t)
	case *ssa.ChangeType:
		return baseKey(t.X)
	case *ssa.Global:
		return "g:" + t.Name()
	}
	return "v:" + v.Name()
}

func fieldName(fa *ssa.FieldAddr) string {
	return fa.X.Type().Underlying().(*types.Pointer).Elem().Underlying().(*types.Struct).Field(fa.Field).Name()
}

type guardInfo struct {
	by    map[string]string // T.f -> mutex field name
	immut map[string]bool
	init  map[string][]string // T.f -> functions allowed to write (initonly)
	none  map[string]bool     // noclaim
	owner map[string][2]string // T.f -> (owner receiver type, mutex field): objects stored in a container guarded by the owner's mutex
	calls map[string][2]string // callee key -> (receiver type of the calling method, mutex field)
}

func (w *World) guards() *guardInfo {
	g := &guardInfo{by: map[string]string{}, immut: map[string]bool{}, init: map[string][]string{}, none: map[string]bool{}, owner: map[string][2]string{}, calls: map[string][2]string{}}
	for _, gd := range w.cs.Guards {
		for _, f := range gd.Fields {
			switch gd.Kind {
			case "guarded":
				if gd.Owner {
					i := strings.LastIndex(gd.By, ".")
					g.owner[f] = [2]string{gd.By[:i], gd.By[i+1:]}
				} else {
					g.by[f] = gd.By[strings.LastIndex(gd.By, ".")+1:]
				}
			case "guardedcall":
				i := strings.LastIndex(gd.By, ".")
				g.calls[f] = [2]string{gd.By[:i], gd.By[i+1:]}
			case "immutable":
				g.immut[f] = true
			case "initonly":
				g.init[f] = gd.In
			case "noclaim":
				g.none[f] = true
			}
		}
	}
	return g
}

// locksetObligations analyses every function of the module packages.
func (w *World) locksetObligations() []*Obligation {
	g := w.guards()
	var out []*Obligation
	var keys []string
	for k, fn := range w.funcs {
		pk := fn.Pkg
		if pk == nil && fn.Parent() != nil {
			pk = fn.Parent().Pkg
		}
		if pk == nil || fn.Blocks == nil || fn.Synthetic != "" {
			continue
		}
		p := pk.Pkg.Path()
		if !strings.HasPrefix(p, modPath+"/") || strings.HasSuffix(p, "/mocks") || strings.HasSuffix(p, "/logging") {
			continue
		}
		pos := w.prog.Fset.Position(fn.Pos())
		if strings.HasSuffix(pos.Filename, "_test.go") {
			continue
		}
		keys = append(keys, k)
	}
	sort.Strings(keys)
	for _, k := range keys {
		out = append(out, w.locksetFunc(w.funcs[k], g)...)
	}
	out = append(out, w.fieldCoverObligations(g)...)
	return out
}

// fieldCoverObligations: `fieldcover T` - every field of struct T is classified: guarded by a mutex, immutable,
// init-only, owner-guarded, explicitly not claimed (`noclaim ... because <reason>`), or a synchronisation primitive.
// An unclassified field is a failed obligation: shared state nobody has decided how it is protected.
func (w *World) fieldCoverObligations(g *guardInfo) []*Obligation {
	var out []*Obligation
	for _, gd := range w.cs.Guards {
		if gd.Kind != "fieldcover" {
			continue
		}
		for _, tn := range gd.Fields {
			i := strings.LastIndex(tn, ".")
			tp := w.tpkgs[tn[:i]]
			if tp == nil || tp.Scope().Lookup(tn[i+1:]) == nil {
				out = append(out, &Obligation{Name: "fieldcover:" + shortKey(tn), Fn: "fieldcover", Kind: "fieldcover", Tags: []string{"C20"}, Goal: "false", Src: "fieldcover names an unknown type " + tn, Status: "sat", Solver: "syntactic"})
				continue
			}
			st, ok := tp.Scope().Lookup(tn[i+1:]).Type().Underlying().(*types.Struct)
			if !ok {
				continue
			}
			for fi := 0; fi < st.NumFields(); fi++ {
				f := st.Field(fi)
				cls := tn + "." + f.Name()
				how := ""
				switch {
				case g.by[cls] != "":
					how = "guarded by " + g.by[cls]
				case g.immut[cls]:
					how = "immutable"
				case g.init[cls] != nil:
					how = "init-only"
				case g.none[cls]:
					how = "not claimed"
				case g.owner[cls][0] != "":
					how = "owner-guarded"
				default:
					ft := types.TypeString(f.Type(), nil)
					if strings.HasPrefix(ft, "sync.") {
						how = "synchronisation primitive " + ft
					}
				}
				o := &Obligation{Name: "fieldcover:" + shortKey(cls), Fn: "fieldcover", Kind: "fieldcover", Tags: []string{"C20"}, Goal: "true", Src: shortKey(cls) + " is classified: " + how, Status: "trivial"}
				if how == "" {
					o.Status, o.Solver, o.Goal = "sat", "syntactic", "false"
					o.Src = shortKey(cls) + " is shared state without a declared protection (guarded / immutable / initonly / noclaim)"
					o.Output = "unclassified field"
				}
				out = append(out, o)
			}
		}
	}
	return out
}

func (w *World) locksetFunc(fn *ssa.Function, g *guardInfo) []*Obligation {
	// entry lockset from `holds` annotations (functions documented to be called with a lock held)
	entry := lockSet{}
	if fc, ok := w.cs.Funcs[funcKey(fn)]; ok {
		for _, h := range fc.Holds {
			entry[h] = true
		}
	}
	in := map[*ssa.BasicBlock]lockSet{}
	var top lockSet // nil = not yet reached
	_ = top
	work := []*ssa.BasicBlock{fn.Blocks[0]}
	in[fn.Blocks[0]] = entry
	outSet := func(b *ssa.BasicBlock, s lockSet) lockSet {
		cur := s.clone()
		for _, ins := range b.Instrs {
			applyLockEffect(ins, cur)
		}
		return cur
	}
	for len(work) > 0 {
		b := work[0]
		work = work[1:]
		o := outSet(b, in[b])
		for _, s := range b.Succs {
			old, seen := in[s]
			var n lockSet
			if !seen {
				n = o.clone()
			} else {
				n = intersect(old, o)
			}
			if !seen || !equalSets(old, n) {
				in[s] = n
				work = append(work, s)
			}
		}
	}
	// derived values: loaded from a guarded map/slice field
	derived := map[ssa.Value][2]string{} // value -> (class T.f, lock key)
	var obls []*Obligation
	ord := map[string]int{}
	fresh := map[ssa.Value]bool{}
	for _, b := range fn.Blocks {
		for _, ins := range b.Instrs {
			if a, ok := ins.(*ssa.Alloc); ok {
				fresh[a] = true
			}
		}
	}
	isFreshBase := func(v ssa.Value) bool {
		for {
			switch t := v.(type) {
			case *ssa.Alloc:
				return true
			case *ssa.FieldAddr:
				v = t.X
				continue
			}
			return fresh[v]
		}
	}
	report := func(ins ssa.Instruction, class, need string, held lockSet, what string, ok bool) {
		name := fmt.Sprintf("%s#lock:%s[%d]", shortKey(funcKey(fn)), shortKey(class), ord[class])
		ord[class]++
		o := &Obligation{Name: name, Fn: funcKey(fn), Kind: "lock", Tags: []string{"C20"}, Goal: "true", Pos: posString(w, ins.Pos()),
			Src: what + " of " + shortKey(class) + " requires " + need, Status: "trivial"}
		if !ok {
			var hs []string
			for k := range held {
				hs = append(hs, k)
			}
			sort.Strings(hs)
			o.Status, o.Solver, o.Goal = "sat", "syntactic", "false"
			o.Output = fmt.Sprintf("%s of %s at %s without %s (held: %v)", what, shortKey(class), o.Pos, need, hs)
		}
		obls = append(obls, o)
	}
	recvName, recvType := "", ""
	if fn.Signature.Recv() != nil && len(fn.Params) > 0 {
		recvName, recvType = fn.Params[0].Name(), namedKey(fn.Params[0].Type())
	}
	ownerNeed := func(fa *ssa.FieldAddr) (string, string, bool) {
		cls := fieldClass(fa.X.Type().Underlying().(*types.Pointer).Elem(), fa.Field)
		ow, ok := g.owner[cls]
		if !ok || recvType != ow[0] || isFreshBase(fa.X) {
			return "", "", false
		}
		return cls, "p:" + recvName + "." + ow[1], true
	}
	for _, b := range fn.Blocks {
		cur, reached := in[b]
		if !reached {
			continue
		}
		cur = cur.clone()
		for _, ins := range b.Instrs {
			// library calls that must be serialised by a mutex of the receiver
			if ci, ok := ins.(ssa.CallInstruction); ok {
				if callee := ci.Common().StaticCallee(); callee != nil {
					if gc, ok := g.calls[callee.String()]; ok && recvType == gc[0] {
						need := "p:" + recvName + "." + gc[1]
						v, held := cur[need]
						if _, isDefer := ins.(*ssa.Defer); !isDefer {
							report(ins, "call "+callee.String(), need, cur, "call", held && v)
						}
					}
				}
			}
			// objects owned by a guarded container of the receiver
			switch t := ins.(type) {
			case *ssa.UnOp:
				// whole-object copy (x := *p) of an object with owner-guarded slice/map fields: the copy carries the live
				// slice headers out of the object, so the backing arrays end up shared with whoever gets the copy
				if pt, ok := t.X.Type().Underlying().(*types.Pointer); ok && t.Op == token.MUL {
					if stT, ok := pt.Elem().Underlying().(*types.Struct); ok && !isFreshBase(t.X) {
						for i := 0; i < stT.NumFields(); i++ {
							cls := fieldClass(pt.Elem(), i)
							ow, owned := g.owner[cls]
							if !owned || recvType != ow[0] {
								continue
							}
							switch stT.Field(i).Type().Underlying().(type) {
							case *types.Slice, *types.Map:
								ok2 := w.noProductionCallers(fn)
								report(ins, cls, "the value to stay inside the object (copy the elements instead)", cur, "whole-object copy carrying the live guarded slice/map", ok2)
							}
						}
					}
				}
				if fa, ok := t.X.(*ssa.FieldAddr); ok && t.Op == token.MUL {
					if cls, need, ok := ownerNeed(fa); ok {
						_, held := cur[need]
						report(ins, cls, need, cur, "read (object owned by the receiver's guarded container)", held)
					}
				}
			case *ssa.Store:
				if fa, ok := t.Addr.(*ssa.FieldAddr); ok {
					if cls, need, ok := ownerNeed(fa); ok {
						v, held := cur[need]
						report(ins, cls, need, cur, "write (object owned by the receiver's guarded container)", held && v)
					}
				}
			}
			// accesses
			switch t := ins.(type) {
			case *ssa.UnOp:
				if t.Op == token.MUL {
					if fa, ok := t.X.(*ssa.FieldAddr); ok {
						cls := fieldClass(fa.X.Type().Underlying().(*types.Pointer).Elem(), fa.Field)
						if mux, ok := g.by[cls]; ok && !isFreshBase(fa.X) {
							need := baseKey(fa.X) + "." + mux
							_, held := cur[need]
							switch fa.Type().Underlying().(*types.Pointer).Elem().Underlying().(type) {
							case *types.Map, *types.Slice:
								// the load of the header is an access only if the field is ever reassigned; track the value
								derived[t] = [2]string{cls, need}
								if w.fieldReassigned(cls) {
									report(ins, cls, need, cur, "read", held)
								}
							default:
								report(ins, cls, need, cur, "read", held)
							}
						}
					}
				}
			case *ssa.Store:
				if fa, ok := t.Addr.(*ssa.FieldAddr); ok {
					cls := fieldClass(fa.X.Type().Underlying().(*types.Pointer).Elem(), fa.Field)
					if mux, ok := g.by[cls]; ok && !isFreshBase(fa.X) {
						need := baseKey(fa.X) + "." + mux
						v, held := cur[need]
						report(ins, cls, need, cur, "write", held && v)
					}
					if g.immut[cls] && !isFreshBase(fa.X) {
						report(ins, cls, "no store outside the constructing function", cur, "write to immutable field", false)
					}
					if fns, ok := g.init[cls]; ok && !isFreshBase(fa.X) {
						allowed := false
						for _, f := range fns {
							if strings.HasSuffix(shortKey(funcKey(fn)), f) {
								allowed = true
							}
						}
						report(ins, cls, "store only in "+strings.Join(fns, ", "), cur, "write to init-only field", allowed)
					}
				}
				if ia, ok := t.Addr.(*ssa.IndexAddr); ok {
					if d, ok := derived[ia.X]; ok {
						v, held := cur[d[1]]
						report(ins, d[0], d[1], cur, "element write", held && v)
					}
				}
			case *ssa.Phi:
				for _, e := range t.Edges {
					if d, ok := derived[e]; ok {
						derived[t] = d
					}
				}
			case *ssa.ChangeType:
				if d, ok := derived[t.X]; ok {
					derived[t] = d
				}
			case *ssa.Lookup:
				if d, ok := derived[t.X]; ok {
					_, held := cur[d[1]]
					report(ins, d[0], d[1], cur, "map read", held)
				}
			case *ssa.MapUpdate:
				if d, ok := derived[t.Map]; ok {
					v, held := cur[d[1]]
					report(ins, d[0], d[1], cur, "map write", held && v)
				}
			case *ssa.Range:
				if d, ok := derived[t.X]; ok {
					_, held := cur[d[1]]
					report(ins, d[0], d[1], cur, "map iteration", held)
					derived[t] = d
				}
			case *ssa.Next:
				if d, ok := derived[t.Iter]; ok {
					_, held := cur[d[1]]
					report(ins, d[0], d[1], cur, "map iteration step", held)
				}
			case *ssa.IndexAddr:
				if d, ok := derived[t.X]; ok {
					_, held := cur[d[1]]
					report(ins, d[0], d[1], cur, "element access", held)
				}
			case *ssa.Call:
				if bi, ok := t.Call.Value.(*ssa.Builtin); ok {
					for i, a := range t.Call.Args {
						if d, ok := derived[a]; ok {
							v, held := cur[d[1]]
							switch bi.Name() {
							case "len", "cap":
								report(ins, d[0], d[1], cur, bi.Name(), held)
							case "delete":
								if i == 0 {
									report(ins, d[0], d[1], cur, "map delete", held && v)
								}
							case "append":
								if i == 0 {
									report(ins, d[0], d[1], cur, "append", held)
								}
							}
						}
					}
				}
			}
			// a guarded map/slice value must not leave the function (it would be used outside the critical section)
			escape := func(v ssa.Value, how string) {
				if d, ok := derived[v]; ok {
					ok2 := w.noProductionCallers(fn)
					what := "escape (" + how + ") of the live guarded value"
					if ok2 {
						what += " [function has no callers outside tests]"
					}
					report(ins, d[0], "the value to stay inside the critical section", cur, what, ok2)
				}
			}
			switch t := ins.(type) {
			case *ssa.Return:
				for _, r := range t.Results {
					escape(r, "return")
				}
			case *ssa.Store:
				escape(t.Val, "store")
			case *ssa.MakeInterface:
				escape(t.X, "interface conversion")
			case *ssa.MakeClosure:
				for _, b := range t.Bindings {
					escape(b, "closure capture")
				}
			case *ssa.Send:
				escape(t.X, "channel send")
			case ssa.CallInstruction:
				if _, isBuiltin := t.Common().Value.(*ssa.Builtin); !isBuiltin {
					for _, a := range t.Common().Args {
						escape(a, "call argument")
					}
				}
			}
			applyLockEffect(ins, cur)
		}
	}
	return obls
}

// noProductionCallers: no function outside _test.go files calls fn (it is a test-only accessor).
func (w *World) noProductionCallers(fn *ssa.Function) bool {
	if w.callers == nil {
		w.callers = map[*ssa.Function]bool{}
		for _, f := range w.funcs {
			if f.Blocks == nil {
				continue
			}
			pos := w.prog.Fset.Position(f.Pos())
			if strings.HasSuffix(pos.Filename, "_test.go") {
				continue
			}
			pk := f.Pkg
			if pk == nil && f.Parent() != nil {
				pk = f.Parent().Pkg
			}
			if pk == nil || !strings.HasPrefix(pk.Pkg.Path(), modPath) {
				continue
			}
			for _, b := range f.Blocks {
				for _, ins := range b.Instrs {
					if c, ok := ins.(ssa.CallInstruction); ok {
						if callee := c.Common().StaticCallee(); callee != nil {
							w.callers[callee] = true
						}
					}
					// method values / function references
					for _, op := range ins.Operands(nil) {
						if g, ok := (*op).(*ssa.Function); ok {
							w.callers[g] = true
						}
					}
				}
			}
		}
	}
	return !w.callers[fn]
}

func posString(w *World, p token.Pos) string {
	if !p.IsValid() {
		return ""
	}
	ps := w.prog.Fset.Position(p)
	f := ps.Filename
	if strings.HasPrefix(f, w.repo) {
		f = strings.TrimPrefix(f[len(w.repo):], "/")
	}
	return fmt.Sprintf("%s:%d", f, ps.Line)
}

// fieldReassigned reports whether any function of the module stores to the field outside a constructor.
func (w *World) fieldReassigned(cls string) bool {
	if w.reassigned == nil {
		w.reassigned = map[string]bool{}
		for _, fn := range w.funcs {
			if fn.Blocks == nil {
				continue
			}
			for _, b := range fn.Blocks {
				for _, ins := range b.Instrs {
					st, ok := ins.(*ssa.Store)
					if !ok {
						continue
					}
					fa, ok := st.Addr.(*ssa.FieldAddr)
					if !ok {
						continue
					}
					if _, isAlloc := fa.X.(*ssa.Alloc); isAlloc {
						continue
					}
					pt, ok := fa.X.Type().Underlying().(*types.Pointer)
					if !ok {
						continue
					}
					if _, ok := pt.Elem().Underlying().(*types.Struct); ok {
						w.reassigned[fieldClass(pt.Elem(), fa.Field)] = true
					}
				}
			}
		}
	}
	return w.reassigned[cls]
}

func applyLockEffect(ins ssa.Instruction, cur lockSet) {
	c, ok := ins.(*ssa.Call)
	if !ok {
		return
	}
	callee := c.Call.StaticCallee()
	if callee == nil || len(c.Call.Args) == 0 {
		return
	}
	fa, ok := c.Call.Args[0].(*ssa.FieldAddr)
	if !ok {
		return
	}
	key := baseKey(fa.X) + "." + fieldName(fa)
	switch callee.String() {
	case "(*sync.Mutex).Lock", "(*sync.RWMutex).Lock":
		cur[key] = true
	case "(*sync.RWMutex).RLock":
		cur[key] = false
	case "(*sync.Mutex).Unlock", "(*sync.RWMutex).Unlock", "(*sync.RWMutex).RUnlock":
		delete(cur, key)
	}
}
