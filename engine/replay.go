package main

// tryReplay turns a solver model of a failed obligation into a run of the real code, where a replay
// driver exists for the obligation's family. It returns (reproduced, details); details == nil means
// no driver applies.
func tryReplay(w *World, res *checkResult, g *oblGroup, o *Obligation, model map[string]string, repo, base string) (bool, map[string]interface{}) {
	return false, nil
}
