package main

import (
	"encoding/json"
	"fmt"
	"os"
	"os/exec"
	"path/filepath"
	"strings"
	"time"
)

type replayTemplate struct {
	Pattern  string `json:"pattern"`
	Template string `json:"template"`
	Pkg      string `json:"pkg"`
	Test     string `json:"test"`
	What     string `json:"what"`
	Loop     int    `json:"loop"`
	Property string `json:"property"` // if set: the template only applies to checks of this property
}

func loadReplayIndex() []replayTemplate {
	data, err := os.ReadFile("/verif/replay_templates/index.json")
	if err != nil {
		return nil
	}
	var out []replayTemplate
	json.Unmarshal(data, &out)
	return out
}

// runOverlayTest injects testFile into package pkgDir of repo through `go test -overlay` (nothing is
// written into the repository) and runs the named test. It returns the combined output.
func runOverlayTest(repo, pkgDir, testFile, testName string, race bool) (string, bool) {
	tmp, err := os.MkdirTemp("", "govc-replay-")
	if err != nil {
		return err.Error(), false
	}
	defer os.RemoveAll(tmp)
	ov := map[string]map[string]string{"Replace": {filepath.Join(repo, pkgDir, "zz_govc_replay_test.go"): testFile}}
	b, _ := json.Marshal(ov)
	ovPath := filepath.Join(tmp, "overlay.json")
	os.WriteFile(ovPath, b, 0o644)
	args := []string{"test", "-overlay", ovPath, "-vet=off", "-count=1", "-timeout", "120s", "-run", "^" + testName + "$"}
	if race {
		args = append(args, "-race")
	}
	args = append(args, "./"+pkgDir)
	cmd := exec.Command("go", args...)
	cmd.Dir = repo
	cmd.Env = append(os.Environ(), "GOFLAGS=-mod=mod", "GOPROXY=off", "GOSUMDB=off", "GOTOOLCHAIN=local")
	done := make(chan struct{})
	var out []byte
	go func() { out, _ = cmd.CombinedOutput(); close(done) }()
	select {
	case <-done:
	case <-time.After(180 * time.Second):
		cmd.Process.Kill()
		<-done
	}
	return string(out), true
}

// tryReplay turns a failed obligation into a run of the real code, where a replay driver exists for the
// obligation's family. It returns (reproduced, details); details == nil means no driver applies.
func tryReplay(w *World, res *checkResult, g *oblGroup, o *Obligation, model map[string]string, repo, base string) (bool, map[string]interface{}) {
	for _, rt := range loadReplayIndex() {
		if !globMatch(rt.Pattern, g.Name) || (rt.Property != "" && res != nil && rt.Property != res.Prop) {
			continue
		}
		tf := filepath.Join("/verif/replay_templates", rt.Template)
		out, ran := runOverlayTest(repo, rt.Pkg, tf, rt.Test, strings.Contains(rt.Template, "race"))
		rep := strings.Contains(out, "REPRODUCED") || strings.Contains(out, "DATA RACE")
		return rep, map[string]interface{}{"driver": "template " + rt.Template, "scenario": rt.What, "ran": ran,
			"command": fmt.Sprintf("go test -overlay <%s as %s/zz_govc_replay_test.go> -run %s ./%s", rt.Template, rt.Pkg, rt.Test, rt.Pkg),
			"reproduced": rep, "output": truncate(out, 3000)}
	}
	if o == nil {
		return false, nil // rejected function: only fixed-scenario templates apply
	}
	if d := shipReplay(w, g, o, model, repo, base); d != nil {
		return d["reproduced"] == true, d
	}
	if d := hubReplay(w, g, repo); d != nil {
		return d["reproduced"] == true, d
	}
	return false, nil
}
