package main

import (
	"fmt"
	"go/constant"
	"go/token"
	"go/types"
	"sort"
	"strings"

	"golang.org/x/tools/go/ssa"
)

type rejectErr string

type Obligation struct {
	Name    string
	Fn      string
	Kind    string // pre, post, inv, frame, safety:nil, safety:bounds, ..., lemma, cover, lock
	Tags    []string
	Label   string
	Goal    string
	Log     []string
	Pos     string
	Src     string
	Status  string // unsat(discharged) | sat | unknown | ...
	Solver  string
	Secs    float64
	Output  string
	Cover   bool // cover obligations expect sat
	PathID  int
	Trace   []string
}

type Exec struct {
	w        *World
	obls     []*Obligation
	fn       *ssa.Function
	fnKey    string
	fc       *FuncContract
	interior map[string]bool
	nameCnt  map[string]int
	paths    int
	maxPaths int
	ctr      int
	safetyTags []string // tags attached to safety obligations in this function
	abstracted map[string]bool
	inlined  map[string]bool
	trustedUsed map[string]bool
	usedKeys    map[string]bool // keys of the contracts applied at call / go sites (the proof depends on them)
	writesClasses map[string]bool
	lockMode bool
	callOrd  map[string]int
	pathID   int
	initHeap map[string]string
	initAlloc string
	entryEnv map[string]Val
	curFr    *Frame
	curIns   ssa.Instruction
	atcallUsed map[string]bool
	absRecv  *Val   // receiver whose state defines abstracted ghost globals (see Abstraction)
	absType  string
	nameSuffix string
	pendingObjInv bool
}

type Frame struct {
	fn      *ssa.Function
	vals    map[ssa.Value]Val
	defers  []func(st *State, k func(*State))
	free    []Val
	depth   int
	loopEnt map[*ssa.BasicBlock]bool
	isTop   bool
}

func (x *Exec) reject(f string, a ...interface{}) { panic(rejectErr(fmt.Sprintf(f, a...))) }

func (x *Exec) noteWrite(st *State, a *Addr) {
	if x.writesClasses != nil {
		x.writesClasses[a.Class] = true
	}
}

func (x *Exec) pos(p token.Pos) string {
	if !p.IsValid() {
		return ""
	}
	ps := x.w.prog.Fset.Position(p)
	f := ps.Filename
	if i := strings.Index(f, x.w.repo); i == 0 {
		f = strings.TrimPrefix(f[len(x.w.repo):], "/")
	}
	return fmt.Sprintf("%s:%d", f, ps.Line)
}

// oblige records a proof obligation `goal` under the current path condition and then assumes it.
func (x *Exec) oblige(st *State, kind, site, label string, tags []string, goal string, pos token.Pos, src string) {
	if goal == "true" {
		// still count as discharged trivially? keep the list small: record nothing.
		x.obls = append(x.obls, &Obligation{Name: x.oblName(kind, site, label), Fn: x.fnKey, Kind: kind, Tags: tags, Label: label, Goal: goal, Pos: x.pos(pos), Src: src, Status: "trivial", PathID: x.pathID})
		return
	}
	o := &Obligation{Name: x.oblName(kind, site, label), Fn: x.fnKey, Kind: kind, Tags: tags, Label: label, Goal: goal, Pos: x.pos(pos), Src: src, PathID: x.pathID}
	o.Log = make([]string, len(st.log))
	copy(o.Log, st.log)
	o.Trace = append([]string{}, st.trace...)
	x.obls = append(x.obls, o)
	if goal != "false" {
		// (a goal that is literally false is a structural failure: the path goes on so later obligations stay meaningful)
		// A clause that belongs to other properties only is not part of this check's verdict, so it must not be assumed
		// either: if it fails (raw SKI handed to the callback) it would hide what follows on the path from this
		// property's own clauses (the connection looked up by the raw SKI). If it holds, not assuming it loses nothing.
		if activeProp != "" && len(tags) > 0 && !hasTag(tags, activeProp) && !strings.HasPrefix(kind, "safety:") {
			return
		}
		st.assume(goal)
	}
}

// activeProp is the property the running check decides ("" outside `govc check`).
var activeProp string

func (x *Exec) oblName(kind, site, label string) string {
	n := x.fnKeyShort() + "#" + kind
	if site != "" {
		n += ":" + site
	}
	if label != "" {
		n += "." + label
	}
	return n
}

func (x *Exec) fnKeyShort() string {
	return strings.ReplaceAll(x.fnKey, modPath+"/", "") + x.nameSuffix
}

func shortKey(k string) string { return strings.ReplaceAll(k, modPath+"/", "") }

// ---- values of SSA operands ----

func (x *Exec) val(st *State, fr *Frame, v ssa.Value) Val {
	switch c := v.(type) {
	case *ssa.Const:
		return x.constVal(st, c)
	case *ssa.Function:
		return Val{T: c.Type(), Fn: c}
	case *ssa.Global:
		t := c.Type().(*types.Pointer).Elem()
		cls := "g:" + c.Pkg.Pkg.Path() + "." + c.Name()
		switch t.Underlying().(type) {
		case *types.Struct:
			fn := quoteSym("gref:" + cls)
			x.w.declUF(fn, "(declare-fun "+fn+" () Int)")
			return Val{T: c.Type(), S: fn, Sort: "Int", A: &Addr{Kind: "obj", Ref: fn, Elem: t}}
		case *types.Array:
			x.reject("global array %s", c.Name())
		}
		srt := sortOf(t)
		if srt == "" {
			x.reject("global of unsupported type %s", t)
		}
		x.w.declClass(cls, "(Array Int "+srt+")")
		return Val{T: c.Type(), A: &Addr{Kind: "mem", Class: cls, Ref: "0", Elem: t}}
	case *ssa.FreeVar:
		for i, fv := range fr.fn.FreeVars {
			if fv == c {
				return fr.free[i]
			}
		}
		x.reject("free variable not bound")
	case *ssa.Builtin:
		return Val{T: c.Type(), BI: c.Name()}
	}
	if r, ok := fr.vals[v]; ok {
		return r
	}
	x.reject("use of undefined SSA value %s in %s", v.Name(), fr.fn.Name())
	return Val{}
}

func (x *Exec) constVal(st *State, c *ssa.Const) Val {
	t := c.Type()
	if c.Value == nil {
		// nil / zero value
		if _, ok := t.Underlying().(*types.Basic); ok && t.Underlying().(*types.Basic).Kind() == types.UntypedNil {
			return Val{T: t, S: "0", Sort: "Int"}
		}
		return st.zeroVal(t)
	}
	if s, ok := constTerm(c.Value, t); ok {
		return Val{T: t, S: s, Sort: sortOf(t)}
	}
	x.reject("constant %s of type %s", c.Value, t)
	return Val{}
}

func (x *Exec) funcTerm(st *State, v Val) string {
	var name string
	if v.Clo != nil {
		name = v.Clo.Fn.String()
	} else {
		name = v.Fn.String()
	}
	fn := quoteSym("fn:" + name)
	x.w.declUF(fn, "(declare-fun "+fn+" () Int)")
	return fn
}

// ---- running functions ----

type contK func(st *State, results []Val)

func (x *Exec) runFunc(st *State, fn *ssa.Function, args []Val, free []Val, depth int, top bool, k contK) {
	if fn.Blocks == nil {
		x.reject("function %s has no body", fn)
	}
	if depth > 6 {
		x.reject("inline depth exceeded at %s", fn)
	}
	fr := &Frame{fn: fn, vals: map[ssa.Value]Val{}, free: free, depth: depth, loopEnt: map[*ssa.BasicBlock]bool{}, isTop: top}
	for i, p := range fn.Params {
		fr.vals[p] = args[i]
	}
	x.runBlock(st, fr, fn.Blocks[0], nil, k)
}

func isBackEdge(from, to *ssa.BasicBlock) bool { return to.Dominates(from) }

func (x *Exec) runBlock(st *State, fr *Frame, b *ssa.BasicBlock, prev *ssa.BasicBlock, k contK) {
	// loop header handling
	if isLoopHeader(b) {
		if prev != nil && isBackEdge(prev, b) {
			x.loopBackEdge(st, fr, b, prev)
			return // path ends at the cut point
		}
		x.loopEnter(st, fr, b, prev, k)
		return
	}
	x.runInstrs(st, fr, b, prev, 0, k)
}

func isLoopHeader(b *ssa.BasicBlock) bool {
	for _, p := range b.Preds {
		if isBackEdge(p, b) {
			return true
		}
	}
	return false
}

func (x *Exec) runInstrs(st *State, fr *Frame, b *ssa.BasicBlock, prev *ssa.BasicBlock, start int, k contK) {
	for i := start; i < len(b.Instrs); i++ {
		ins := b.Instrs[i]
		x.curFr, x.curIns = fr, ins
		switch in := ins.(type) {
		case *ssa.Phi:
			if prev == nil {
				x.reject("phi in entry block")
			}
			if _, done := fr.vals[in]; done && isLoopHeader(b) && !isBackEdgeFrom(prev, b) {
				// already bound by loopEnter (havoc'd)
				continue
			}
			for j, p := range b.Preds {
				if p == prev {
					fr.vals[in] = x.val(st, fr, in.Edges[j])
					// keep static type of the phi
					v := fr.vals[in]
					v.T = in.Type()
					fr.vals[in] = v
					break
				}
			}
		case *ssa.If:
			c := x.val(st, fr, in.Cond)
			switch c.S {
			case "true":
				x.runBlock(st, fr, b.Succs[0], b, k)
			case "false":
				x.runBlock(st, fr, b.Succs[1], b, k)
			default:
				if x.tryMergeIf(st, fr, b, in, c, k) {
					return
				}
				x.paths++
				if x.paths > x.maxPaths {
					x.reject("path limit %d exceeded", x.maxPaths)
				}
				st2 := st.clone()
				fr2 := fr.clone()
				st.assume(c.S)
				st.trace = append(st.trace, fmt.Sprintf("%s: %s", x.pos(in.Cond.Pos()), "T"))
				x.runBlock(st, fr, b.Succs[0], b, k)
				st2.assume(sNot(c.S))
				st2.trace = append(st2.trace, fmt.Sprintf("%s: %s", x.pos(in.Cond.Pos()), "F"))
				x.runBlock(st2, fr2, b.Succs[1], b, k)
			}
			return
		case *ssa.Jump:
			x.runBlock(st, fr, b.Succs[0], b, k)
			return
		case *ssa.Return:
			var rs []Val
			for _, r := range in.Results {
				rs = append(rs, x.val(st, fr, r))
			}
			k(st, rs)
			return
		case *ssa.Panic:
			x.oblige(st, "safety:panic", x.site("panic", in.Pos()), "", x.safetyTags, "false", in.Pos(), "explicit panic unreachable")
			return
		case *ssa.RunDefers:
			ds := fr.defers
			fr.defers = nil
			snap := fr.clone()
			var run func(st *State, j int)
			rest := i + 1
			run = func(st *State, j int) {
				if j < 0 {
					x.runInstrs(st, snap.clone(), b, prev, rest, k)
					return
				}
				ds[j](st, func(st *State) { run(st, j-1) })
			}
			run(st, len(ds)-1)
			return
		case *ssa.Call:
			rest := i + 1
			snap := fr.clone()
			x.doCall(st, fr, in, in.Common(), func(st *State, res Val) {
				f := snap.clone() // the callee may have forked: every continuation gets its own frame
				f.vals[in] = res
				x.runInstrs(st, f, b, prev, rest, k)
			})
			return
		case *ssa.Defer:
			common := in.Common()
			// evaluate operands now
			call := *common
			var argv []Val
			for _, a := range call.Args {
				argv = append(argv, x.val(st, fr, a))
			}
			var fv Val
			if _, isClo := call.Value.(*ssa.MakeClosure); call.IsInvoke() || call.StaticCallee() == nil || isClo {
				fv = x.val(st, fr, call.Value)
			}
			pos := in.Pos()
			fr.defers = append(fr.defers, func(st *State, kk func(*State)) {
				x.doCallVals(st, fr, &call, fv, argv, pos, func(st *State, _ Val) { kk(st) })
			})
		case *ssa.Go:
			x.doGo(st, fr, in)
		case *ssa.Select:
			x.abstracted["select"] = true
			for _, ss := range in.States {
				if ss.Dir == types.SendOnly {
					x.sendCheck(st, x.val(st, fr, ss.Chan), in.Pos())
				}
			}
			// nondeterministic choice
			t := in.Type().(*types.Tuple)
			res := Val{T: t}
			idx := st.fresh("sel", "Int")
			n := len(in.States)
			lo := "0"
			if !in.Blocking {
				lo = "(- 1)"
			}
			st.assume(sAnd("(<= "+lo+" "+idx+")", fmt.Sprintf("(< %s %d)", idx, n)))
			res.Fs = append(res.Fs, Val{T: t.At(0).Type(), S: idx, Sort: "Int"})
			res.Fs = append(res.Fs, Val{T: t.At(1).Type(), S: st.fresh("recvok", "Bool"), Sort: "Bool"})
			for j := 2; j < t.Len(); j++ {
				res.Fs = append(res.Fs, st.freshVal("recv", t.At(j).Type()))
			}
			rk := 2
			for i, ss := range in.States {
				chosen := fmt.Sprintf("(= %s %d)", idx, i)
				if ss.Dir == types.SendOnly {
					if x.chanDecl("chanlog", ss.Chan) {
						x.noteSend(st, x.val(st, fr, ss.Chan), x.val(st, fr, ss.Send), chosen)
					}
					continue
				}
				if x.closeOnlyChan(ss.Chan) {
					// nothing is ever sent on this channel: the receive can only complete because it was closed
					x.assumeChanClosed(st, x.val(st, fr, ss.Chan), chosen)
				}
				if rk < len(res.Fs) && x.chanDecl("chanlog", ss.Chan) {
					x.noteRecv(st, x.val(st, fr, ss.Chan), res.Fs[rk], sAnd(chosen, res.Fs[1].S))
				}
				rk++
			}
			fr.vals[in] = res
			if in.Blocking {
				x.interference(st)
			}
		default:
			if v, ok := ins.(ssa.Value); ok {
				fr.vals[v] = x.evalInstr(st, fr, ins)
			} else {
				x.execEffect(st, fr, ins)
			}
		}
	}
}

// oldOf is the heap old() denotes on this path: the entry state, or the state after the last interference point.
func (x *Exec) oldOf(st *State) map[string]string {
	if st.oldHeap != nil {
		return st.oldHeap
	}
	return x.initHeap
}

// interference: the function blocks here (select); `interference v: list` in its contract says which locations
// other goroutines may have changed meanwhile. They are havoc'd, the object invariants of v are assumed again
// (they hold whenever no entry of v is running: the sequential-handler assumption), and old() refers to this
// state from now on.
func (x *Exec) interference(st *State) {
	if x.fc == nil || len(x.fc.Interf) == 0 {
		return
	}
	x.abstracted["interference at blocking select"] = true
	env := &specEnv{w: x.w, pkg: x.fc.Pkg, vars: x.entryEnv, st: st, heap: st.heap}
	for _, m := range x.fc.Interf {
		x.havocEntry(st, x.fc, m, env)
	}
	v, ok := x.entryEnv[x.fc.InterfVar]
	if !ok {
		x.reject("contract of %s: interference: unknown variable %s", x.fc.Key, x.fc.InterfVar)
	}
	for _, oi := range x.w.cs.ObjInvs[namedKey(v.T)] {
		oenv := &specEnv{w: x.w, pkg: oi.Pkg, vars: map[string]Val{oi.Var: v}, st: st, heap: st.heap}
		g, err := oenv.evalBool(oi.E)
		if err != nil {
			x.reject("objinv of %s: %v", oi.Type, err)
		}
		st.assume(g)
	}
	st.oldHeap = st.snapshot()
	st.trace = append(st.trace, "interference: state havoc'd, object invariants assumed")
}

// privateCell: the cell of a local variable whose address is only used for loads and stores in its function and is
// captured only by closures that read it - no callee and no other goroutine can write it.
func privateCell(a *ssa.Alloc) bool {
	refs := a.Referrers()
	if refs == nil {
		return false
	}
	for _, r := range *refs {
		switch t := r.(type) {
		case *ssa.UnOp, *ssa.DebugRef:
		case *ssa.Store:
			if t.Val == ssa.Value(a) {
				return false
			}
		case *ssa.MakeClosure:
			fn, ok := t.Fn.(*ssa.Function)
			if !ok {
				return false
			}
			for i, b := range t.Bindings {
				if b != ssa.Value(a) {
					continue
				}
				fvRefs := fn.FreeVars[i].Referrers()
				if fvRefs == nil {
					return false
				}
				for _, fr := range *fvRefs {
					switch fr.(type) {
					case *ssa.UnOp, *ssa.DebugRef:
					default:
						return false
					}
				}
			}
		default:
			return false
		}
	}
	return true
}

func isBackEdgeFrom(prev, b *ssa.BasicBlock) bool { return prev != nil && isBackEdge(prev, b) }

func (fr *Frame) clone() *Frame {
	n := &Frame{fn: fr.fn, free: fr.free, depth: fr.depth, isTop: fr.isTop}
	n.vals = make(map[ssa.Value]Val, len(fr.vals))
	for k, v := range fr.vals {
		n.vals[k] = v
	}
	n.defers = append([]func(*State, func(*State)){}, fr.defers...)
	n.loopEnt = map[*ssa.BasicBlock]bool{}
	for k, v := range fr.loopEnt {
		n.loopEnt[k] = v
	}
	return n
}

// site names an obligation site: kind plus the static ordinal of the current instruction among the
// instructions of the same kind in its function (stable under edits elsewhere; never a line number).
func (x *Exec) site(kind string, p token.Pos) string {
	fr, ins := x.curFr, x.curIns
	if fr == nil || ins == nil {
		return kind
	}
	ord := 0
	same := func(a ssa.Instruction) bool {
		if fmt.Sprintf("%T", a) != fmt.Sprintf("%T", ins) {
			return false
		}
		ca, ok1 := a.(ssa.CallInstruction)
		cb, ok2 := ins.(ssa.CallInstruction)
		if ok1 && ok2 {
			return calleeName(ca.Common()) == calleeName(cb.Common())
		}
		return true
	}
	found := false
	for _, b := range fr.fn.Blocks {
		for _, a := range b.Instrs {
			if a == ins {
				found = true
				break
			}
			if same(a) {
				ord++
			}
		}
		if found {
			break
		}
	}
	s := fmt.Sprintf("%s[%d]", kind, ord)
	if !fr.isTop {
		s = fr.fn.Name() + "/" + s
	}
	return s
}

func calleeName(c *ssa.CallCommon) string {
	if c.IsInvoke() {
		return c.Method.Name()
	}
	if f := c.StaticCallee(); f != nil {
		return f.Name()
	}
	return c.Value.Name()
}

// ---- effects (non-value instructions) ----

func (x *Exec) execEffect(st *State, fr *Frame, ins ssa.Instruction) {
	switch in := ins.(type) {
	case *ssa.Store:
		pv := x.val(st, fr, in.Addr)
		v := x.val(st, fr, in.Val)
		x.nilCheck(st, pv, in.Pos(), "store")
		a := st.addrOfPtr(pv)
		x.lockCheck(st, a, true, in.Pos())
		st.storeAt(a, v, in.Val.Type())
	case *ssa.MapUpdate:
		m := x.val(st, fr, in.Map)
		kv := x.val(st, fr, in.Key)
		vv := x.val(st, fr, in.Value)
		mt := in.Map.Type().Underlying().(*types.Map)
		x.oblige(st, "safety:nilmap", x.site("mapupdate", in.Pos()), "", x.safetyTags, sNot(sEq(m.S, "0")), in.Pos(), "write to nil map")
		pc, vc := st.mapClasses(mt)
		hp, hv := st.hget(pc), st.hget(vc)
		st.hset(pc, "(store "+hp+" "+m.S+" (store (select "+hp+" "+m.S+") "+kv.S+" true))")
		st.hset(vc, "(store "+hv+" "+m.S+" (store (select "+hv+" "+m.S+") "+kv.S+" "+st.valTerm(vv)+"))")
	case *ssa.Send:
		x.abstracted["chan send"] = true
		x.sendCheck(st, x.val(st, fr, in.Chan), in.Pos())
		if x.chanDecl("chanlog", in.Chan) {
			x.noteSend(st, x.val(st, fr, in.Chan), x.val(st, fr, in.X), "true")
		}
	case *ssa.DebugRef:
	default:
		x.reject("unmodelled instruction %T", ins)
	}
}

func (x *Exec) nilCheck(st *State, p Val, pos token.Pos, what string) {
	if p.A != nil {
		if st.freshRef[p.A.Ref] || strings.HasPrefix(p.A.Ref, "(|sub:") || strings.HasPrefix(p.A.Ref, "(sub:") || strings.HasPrefix(p.A.Ref, "(|elemref:") || strings.HasPrefix(p.A.Class, "g:") || strings.Contains(p.A.Ref, "gref:") {
			return
		}
		if p.S == "" {
			// interior pointer derived from a checked base
			return
		}
	}
	if p.S == "" {
		return
	}
	x.oblige(st, "safety:nil", x.site("deref", pos), what, x.safetyTags, sNot(sEq(p.S, "0")), pos, "nil pointer dereference")
}

// lockCheck is the C20 hook: record accesses to guarded fields with the lockset (filled in by lockset.go).
func (x *Exec) lockCheck(st *State, a *Addr, write bool, pos token.Pos) {
	if x.lockMode {
		x.lockAccess(st, a, write, pos)
	}
}

// ---- value instructions ----

func (x *Exec) evalInstr(st *State, fr *Frame, ins ssa.Instruction) Val {
	switch in := ins.(type) {
	case *ssa.Alloc:
		t := in.Type().(*types.Pointer).Elem()
		v := st.allocObject(t, hintOf(in.Comment, "new"), true)
		if v.A != nil && v.A.Kind == "mem" && fr.isTop && privateCell(in) {
			if st.cells == nil {
				st.cells = map[string]string{}
			}
			st.cells[v.A.Ref] = v.A.Class
		}
		return v
	case *ssa.FieldAddr:
		base := x.val(st, fr, in.X)
		x.nilCheck(st, base, in.Pos(), "field")
		a := st.addrOfPtr(base)
		fa := st.fieldAddr(a, in.Field)
		v := Val{T: in.Type(), A: fa}
		if fa.Kind == "obj" || fa.Kind == "arr" {
			v.S, v.Sort = fa.Ref, "Int"
		}
		return v
	case *ssa.Field:
		base := x.val(st, fr, in.X)
		if base.Fs == nil {
			x.reject("field of non-struct value")
		}
		return base.Fs[in.Field]
	case *ssa.IndexAddr:
		base := x.val(st, fr, in.X)
		idx := x.val(st, fr, in.Index)
		switch bt := in.X.Type().Underlying().(type) {
		case *types.Slice:
			x.oblige(st, "safety:bounds", x.site("index", in.Pos()), "", x.safetyTags, sAnd("(<= 0 "+idx.S+")", "(< "+idx.S+" (slen "+base.S+"))"), in.Pos(), "index out of range")
			a := st.elemAddr(base, idx.S, bt.Elem())
			v := Val{T: in.Type(), A: a}
			if a.Kind == "obj" {
				v.S, v.Sort = a.Ref, "Int"
			}
			return v
		case *types.Pointer:
			at := bt.Elem().Underlying().(*types.Array)
			x.nilCheck(st, base, in.Pos(), "index")
			ba := st.addrOfPtr(base)
			x.oblige(st, "safety:bounds", x.site("index", in.Pos()), "", x.safetyTags, sAnd("(<= 0 "+idx.S+")", fmt.Sprintf("(< %s %d)", idx.S, at.Len())), in.Pos(), "index out of range")
			a := st.elemAddrOf(ba.Ref, idx.S, at.Elem())
			v := Val{T: in.Type(), A: a}
			if a.Kind == "obj" {
				v.S, v.Sort = a.Ref, "Int"
			}
			return v
		}
		x.reject("IndexAddr on %s", in.X.Type())
	case *ssa.Index:
		base := x.val(st, fr, in.X)
		idx := x.val(st, fr, in.Index)
		if base.Sort == "String" {
			x.oblige(st, "safety:bounds", x.site("index", in.Pos()), "", x.safetyTags, sAnd("(<= 0 "+idx.S+")", "(< "+idx.S+" (str.len "+base.S+"))"), in.Pos(), "string index out of range")
			return Val{T: in.Type(), S: "(str.to_code (str.at " + base.S + " " + idx.S + "))", Sort: "Int"}
		}
		x.reject("Index on %s", in.X.Type())
	case *ssa.UnOp:
		return x.evalUnOp(st, fr, in)
	case *ssa.BinOp:
		a, b := x.val(st, fr, in.X), x.val(st, fr, in.Y)
		return x.evalBinOp(st, in.Op, a, b, in.X.Type(), in.Type(), in.Pos())
	case *ssa.Extract:
		t := x.val(st, fr, in.Tuple)
		return t.Fs[in.Index]
	case *ssa.MakeInterface:
		v := x.val(st, fr, in.X)
		return x.makeIface(st, v, in.X.Type(), in.Type())
	case *ssa.ChangeInterface:
		v := x.val(st, fr, in.X)
		v.T = in.Type()
		return v
	case *ssa.ChangeType:
		v := x.val(st, fr, in.X)
		v.T = in.Type()
		return v
	case *ssa.Convert:
		return x.evalConvert(st, x.val(st, fr, in.X), in.X.Type(), in.Type(), in.Pos())
	case *ssa.MakeClosure:
		fn := in.Fn.(*ssa.Function)
		var bs []Val
		for _, b := range in.Bindings {
			bs = append(bs, x.val(st, fr, b))
		}
		return Val{T: in.Type(), Clo: &Closure{Fn: fn, Binds: bs}}
	case *ssa.MakeMap:
		mt := in.Type().Underlying().(*types.Map)
		r := st.newRef("map")
		pc, vc := st.mapClasses(mt)
		ks := sortOf(mt.Key())
		vs := sortOf(mt.Elem())
		zero := st.zeroVal(mt.Elem())
		st.hset(pc, "(store "+st.hget(pc)+" "+r+" ((as const (Array "+ks+" Bool)) false))")
		st.hset(vc, "(store "+st.hget(vc)+" "+r+" ((as const (Array "+ks+" "+vs+")) "+zero.S+"))")
		return Val{T: in.Type(), S: r, Sort: "Int"}
	case *ssa.MakeChan:
		r := st.newRef("chan")
		return Val{T: in.Type(), S: r, Sort: "Int"}
	case *ssa.MakeSlice:
		l, c := x.val(st, fr, in.Len), x.val(st, fr, in.Cap)
		x.oblige(st, "safety:makeslice", x.site("makeslice", in.Pos()), "", x.safetyTags, sAnd("(<= 0 "+l.S+")", "(<= "+l.S+" "+c.S+")"), in.Pos(), "makeslice: len out of range")
		et := in.Type().Underlying().(*types.Slice).Elem()
		r := st.newRef("arr")
		if sortOf(et) != "" {
			cls := st.elemClass(et)
			st.hset(cls, "(store "+st.hget(cls)+" "+r+" ((as const (Array Int "+sortOf(et)+")) "+st.zeroVal(et).S+"))")
		}
		return Val{T: in.Type(), S: "(mk-slice " + r + " 0 " + l.S + " " + c.S + ")", Sort: "Slice"}
	case *ssa.Slice:
		return x.evalSlice(st, fr, in)
	case *ssa.Lookup:
		m := x.val(st, fr, in.X)
		kv := x.val(st, fr, in.Index)
		if mt, ok := in.X.Type().Underlying().(*types.Map); ok {
			pc, vc := st.mapClasses(mt)
			x.lockCheckMap(st, in.X, fr, false, in.Pos())
			p := "(select (select " + st.hget(pc) + " " + m.S + ") " + kv.S + ")"
			raw := "(select (select " + st.hget(vc) + " " + m.S + ") " + kv.S + ")"
			zero := st.zeroVal(mt.Elem())
			// reading a nil map yields the zero value
			pres := sAnd(sNot(sEq(m.S, "0")), p)
			v := Val{T: mt.Elem(), S: sIte(pres, raw, zero.S), Sort: sortOf(mt.Elem())}
			st.assumeTypeInv(Val{T: mt.Elem(), S: raw, Sort: v.Sort})
			if in.CommaOk {
				return Val{T: in.Type(), Fs: []Val{v, {T: types.Typ[types.Bool], S: pres, Sort: "Bool"}}}
			}
			return v
		}
		// string index
		x.oblige(st, "safety:bounds", x.site("index", in.Pos()), "", x.safetyTags, sAnd("(<= 0 "+kv.S+")", "(< "+kv.S+" (str.len "+m.S+"))"), in.Pos(), "string index out of range")
		return Val{T: in.Type(), S: "(str.to_code (str.at " + m.S + " " + kv.S + "))", Sort: "Int"}
	case *ssa.TypeAssert:
		return x.evalTypeAssert(st, fr, in)
	case *ssa.Range:
		v := x.val(st, fr, in.X)
		v.T = in.X.Type()
		if mt, ok := in.X.Type().Underlying().(*types.Map); ok {
			// a map iterator carries the set of keys it has produced (ghost, per iterator) and remembers the
			// map's contents as they were when the iteration started
			pc, _ := st.mapClasses(mt)
			ks := sortOf(mt.Key())
			vcls := "ghost:$visited:" + ks
			x.w.declClass(vcls, "(Array Int (Array "+ks+" Bool))")
			id := st.newRef("iter")
			st.hset(vcls, "(store "+st.hget(vcls)+" "+id+" ((as const (Array "+ks+" Bool)) false))")
			return Val{T: in.Type(), Fs: []Val{v, {S: id, Sort: "Int"}, {S: st.hget(pc), Sort: "heap"}}}
		}
		return Val{T: in.Type(), Fs: []Val{v}}
	case *ssa.Next:
		it := x.val(st, fr, in.Iter)
		if in.IsString {
			x.reject("range over string")
		}
		m := it.Fs[0]
		mt := m.T.Underlying().(*types.Map)
		pc, vc := st.mapClasses(mt)
		ok := st.fresh("more", "Bool")
		kv := st.freshVal("key", mt.Key())
		present := "(select (select " + st.hget(pc) + " " + m.S + ") " + kv.S + ")"
		st.assume(sImp(ok, sAnd(sNot(sEq(m.S, "0")), present)))
		if len(it.Fs) == 3 {
			ks := sortOf(mt.Key())
			vcls := "ghost:$visited:" + ks
			vis := "(select " + st.hget(vcls) + " " + it.Fs[1].S + ")"
			// a key is produced at most once
			st.assume(sImp(ok, sNot("(select "+vis+" "+kv.S+")")))
			// the iteration ends only when every key has been produced - stated only if no map of this type has
			// been written since the iteration started (Go leaves open whether entries added meanwhile are produced)
			if st.hget(pc) == it.Fs[2].S {
				q := "q!vk"
				st.assume(sImp(sAnd(sNot(ok), sNot(sEq(m.S, "0"))), "(forall (("+q+" "+ks+")) (=> (select (select "+st.hget(pc)+" "+m.S+") "+q+") (select "+vis+" "+q+")))"))
			}
			st.hset(vcls, "(store "+st.hget(vcls)+" "+it.Fs[1].S+" (ite "+ok+" (store "+vis+" "+kv.S+" true) "+vis+"))")
		}
		vv := Val{T: mt.Elem(), S: "(select (select " + st.hget(vc) + " " + m.S + ") " + kv.S + ")", Sort: sortOf(mt.Elem())}
		st.assumeTypeInv(vv)
		tt := in.Type().(*types.Tuple)
		return Val{T: tt, Fs: []Val{{T: tt.At(0).Type(), S: ok, Sort: "Bool"}, kv, vv}}
	}
	x.reject("unmodelled instruction %T", ins)
	return Val{}
}

func hintOf(comment, def string) string {
	if comment == "" {
		return def
	}
	return comment
}

func (x *Exec) makeIface(st *State, v Val, from types.Type, to types.Type) Val {
	if _, isIface := from.Underlying().(*types.Interface); isIface {
		v.T = to
		return v
	}
	tag := x.w.typeID(from)
	var ref string
	switch {
	case v.Sort == "Int" && isRefType(from):
		ref = v.S
	case v.A != nil && (v.A.Kind == "obj" || v.A.Kind == "mem" || v.A.Kind == "arr"):
		ref = v.A.Ref
	default:
		// boxed non-pointer value: identity is a function of the value when it has a term, otherwise fresh
		if v.S != "" && v.Sort != "" {
			fn := quoteSym("box:" + v.Sort)
			x.w.declUF(fn, "(declare-fun "+fn+" ("+v.Sort+") Int)")
			ref = "(" + fn + " " + v.S + ")"
		} else {
			ref = st.fresh("box", "Int")
		}
	}
	name := st.define("ifc", "Iface", fmt.Sprintf("(mk-iface %d %s)", tag, ref))
	st.conc[name] = Val{T: from, S: v.S, Sort: v.Sort, Fs: v.Fs, A: v.A, Clo: v.Clo, Fn: v.Fn}
	return Val{T: to, S: name, Sort: "Iface"}
}

func isRefType(t types.Type) bool {
	switch t.Underlying().(type) {
	case *types.Pointer, *types.Map, *types.Chan, *types.Signature:
		return true
	}
	return false
}

func (x *Exec) evalUnOp(st *State, fr *Frame, in *ssa.UnOp) Val {
	v := x.val(st, fr, in.X)
	switch in.Op {
	case token.MUL:
		if g, ok := in.X.(*ssa.Global); ok && g.Name() == "init$guard" {
			return Val{T: in.Type(), S: "false", Sort: "Bool"} // the initialiser is verified for its first (only effective) run
		}
		x.nilCheck(st, v, in.Pos(), "load")
		a := st.addrOfPtr(v)
		x.lockCheck(st, a, false, in.Pos())
		return st.load(a, in.Type())
	case token.NOT:
		return Val{T: in.Type(), S: sNot(v.S), Sort: "Bool"}
	case token.SUB:
		if v.Sort == "Real" {
			return Val{T: in.Type(), S: "(- " + v.S + ")", Sort: "Real"}
		}
		return x.wrapInt(st, "(- "+v.S+")", in.Type())
	case token.ARROW:
		x.abstracted["chan receive"] = true
		defer x.interference(st) // a blocking receive: other goroutines run meanwhile (`interference` clause of the contract)
		if x.closeOnlyChan(in.X) {
			x.assumeChanClosed(st, v, "true")
		}
		if _, ok := x.w.classes["ghost:$chrecvs"]; ok && x.chanDecl("chanlog", in.X) {
			if in.CommaOk {
				tt := in.Type().(*types.Tuple)
				r := Val{T: tt, Fs: []Val{st.freshVal("recv", tt.At(0).Type()), {T: tt.At(1).Type(), S: st.fresh("ok", "Bool"), Sort: "Bool"}}}
				x.noteRecv(st, v, r.Fs[0], r.Fs[1].S)
				return r
			}
			if s, ok := in.Type().Underlying().(*types.Struct); !ok || s.NumFields() != 0 {
				r := st.freshVal("recv", in.Type())
				x.noteRecv(st, v, r, st.fresh("ok", "Bool")) // a plain receive may also see a closed channel (zero value)
				return r
			}
		}
		if in.CommaOk {
			tt := in.Type().(*types.Tuple)
			return Val{T: tt, Fs: []Val{st.freshVal("recv", tt.At(0).Type()), {T: tt.At(1).Type(), S: st.fresh("ok", "Bool"), Sort: "Bool"}}}
		}
		if s, ok := in.Type().Underlying().(*types.Struct); ok && s.NumFields() == 0 {
			return Val{T: in.Type(), Fs: []Val{}}
		}
		return st.freshVal("recv", in.Type())
	case token.XOR:
		return x.ufInt(st, "bitnot", in.Type(), v.S)
	}
	x.reject("unary operator %s", in.Op)
	return Val{}
}

func (x *Exec) ufInt(st *State, name string, t types.Type, args ...string) Val {
	fn := "uf_" + name
	var ss []string
	for range args {
		ss = append(ss, "Int")
	}
	x.w.declUF(fn, "(declare-fun "+fn+" ("+strings.Join(ss, " ")+") Int)")
	v := Val{T: t, S: "(" + fn + " " + strings.Join(args, " ") + ")", Sort: "Int"}
	r := x.wrapInt(st, v.S, t)
	return r
}

// wrapInt gives Go's wrap-around semantics to a mathematical integer expression of type t.
func (x *Exec) wrapInt(st *State, e string, t types.Type) Val {
	lo, hi, ok := intRange(t)
	if !ok {
		return Val{T: t, S: e, Sort: "Int"}
	}
	if isIntLit(e) {
		return Val{T: t, S: e, Sort: "Int"}
	}
	fn := quoteSym("wrap:" + t.Underlying().String())
	x.w.declUF(fn, "(declare-fun "+fn+" (Int) Int)")
	ev := st.define("e", "Int", e)
	w := "(" + fn + " " + ev + ")"
	key := "wrapinv:" + w
	if !st.known[key] {
		st.known[key] = true
		st.assume(sAnd("(<= "+lo+" "+w+")", "(<= "+w+" "+hi+")"))
	}
	return Val{T: t, S: "(ite (and (<= " + lo + " " + ev + ") (<= " + ev + " " + hi + ")) " + ev + " " + w + ")", Sort: "Int"}
}

func (x *Exec) evalBinOp(st *State, op token.Token, a, b Val, opT types.Type, resT types.Type, pos token.Pos) Val {
	bres := func(s string) Val { return Val{T: resT, S: s, Sort: "Bool"} }
	switch op {
	case token.EQL, token.NEQ:
		var eq string
		switch {
		case a.Fs != nil || b.Fs != nil:
			// struct comparison fieldwise
			if len(a.Fs) != len(b.Fs) {
				x.reject("struct comparison arity")
			}
			var cs []string
			for i := range a.Fs {
				c := x.evalBinOp(st, token.EQL, a.Fs[i], b.Fs[i], a.Fs[i].T, resT, pos)
				cs = append(cs, c.S)
			}
			eq = sAnd(cs...)
		case a.Sort == "Slice" || b.Sort == "Slice":
			s := a
			if a.Sort != "Slice" {
				s = b
			}
			eq = sEq("(sarr "+s.S+")", "0")
		case a.Sort == "Iface" && b.Sort == "Iface":
			if b.S == "(mk-iface 0 0)" {
				eq = sEq("(itag "+a.S+")", "0")
			} else if a.S == "(mk-iface 0 0)" {
				eq = sEq("(itag "+b.S+")", "0")
			} else {
				eq = sEq(a.S, b.S)
			}
		default:
			eq = sEq(st.valTerm(a), st.valTerm(b))
		}
		if op == token.NEQ {
			eq = sNot(eq)
		}
		return bres(eq)
	case token.LSS, token.LEQ, token.GTR, token.GEQ:
		if a.Sort == "String" {
			switch op {
			case token.LSS:
				return bres("(str.< " + a.S + " " + b.S + ")")
			case token.LEQ:
				return bres("(str.<= " + a.S + " " + b.S + ")")
			case token.GTR:
				return bres("(str.< " + b.S + " " + a.S + ")")
			default:
				return bres("(str.<= " + b.S + " " + a.S + ")")
			}
		}
		o := map[token.Token]string{token.LSS: "<", token.LEQ: "<=", token.GTR: ">", token.GEQ: ">="}[op]
		if isIntLit(a.S) && isIntLit(b.S) {
			return bres(foldCmp(o, a.S, b.S))
		}
		return bres("(" + o + " " + a.S + " " + b.S + ")")
	case token.ADD:
		if a.Sort == "String" {
			return Val{T: resT, S: "(str.++ " + a.S + " " + b.S + ")", Sort: "String"}
		}
		if a.Sort == "Real" {
			return Val{T: resT, S: "(+ " + a.S + " " + b.S + ")", Sort: "Real"}
		}
		return x.wrapInt(st, "(+ "+a.S+" "+b.S+")", resT)
	case token.SUB:
		if a.Sort == "Real" {
			return Val{T: resT, S: "(- " + a.S + " " + b.S + ")", Sort: "Real"}
		}
		return x.wrapInt(st, "(- "+a.S+" "+b.S+")", resT)
	case token.MUL:
		if a.Sort == "Real" {
			return Val{T: resT, S: "(* " + a.S + " " + b.S + ")", Sort: "Real"}
		}
		return x.wrapInt(st, "(* "+a.S+" "+b.S+")", resT)
	case token.QUO, token.REM:
		if a.Sort == "Real" {
			return Val{T: resT, S: "(/ " + a.S + " " + b.S + ")", Sort: "Real"}
		}
		x.oblige(st, "safety:div", x.site("div", pos), "", x.safetyTags, sNot(sEq(b.S, "0")), pos, "integer division by zero")
		name := "quo"
		smt := "div"
		if op == token.REM {
			name, smt = "rem", "mod"
		}
		uf := x.ufInt(st, name, resT, a.S, b.S)
		return Val{T: resT, S: "(ite (and (>= " + a.S + " 0) (> " + b.S + " 0)) (" + smt + " " + a.S + " " + b.S + ") " + uf.S + ")", Sort: "Int"}
	case token.AND, token.OR, token.XOR, token.SHL, token.SHR, token.AND_NOT:
		if a.Sort == "Bool" {
			switch op {
			case token.AND:
				return Val{T: resT, S: sAnd(a.S, b.S), Sort: "Bool"}
			case token.OR:
				return Val{T: resT, S: sOr(a.S, b.S), Sort: "Bool"}
			}
		}
		return x.ufInt(st, "bit_"+strings.ToLower(op.String()), resT, a.S, b.S)
	}
	x.reject("binary operator %s", op)
	return Val{}
}

func foldCmp(op, a, b string) string {
	var x, y int64
	pa := strings.TrimSuffix(strings.TrimPrefix(a, "(- "), ")")
	pb := strings.TrimSuffix(strings.TrimPrefix(b, "(- "), ")")
	if _, err := fmt.Sscan(pa, &x); err != nil {
		return "(" + op + " " + a + " " + b + ")"
	}
	if _, err := fmt.Sscan(pb, &y); err != nil {
		return "(" + op + " " + a + " " + b + ")"
	}
	if strings.HasPrefix(a, "(-") {
		x = -x
	}
	if strings.HasPrefix(b, "(-") {
		y = -y
	}
	var r bool
	switch op {
	case "<":
		r = x < y
	case "<=":
		r = x <= y
	case ">":
		r = x > y
	case ">=":
		r = x >= y
	}
	if r {
		return "true"
	}
	return "false"
}

func (x *Exec) evalConvert(st *State, v Val, from, to types.Type, pos token.Pos) Val {
	fs, ts := sortOf(from), sortOf(to)
	switch {
	case fs == "Int" && ts == "Int":
		if isRefType(from) || isRefType(to) {
			v.T = to
			return v
		}
		return x.wrapInt(st, v.S, to)
	case fs == "String" && ts == "String":
		v.T = to
		return v
	case fs == "Int" && ts == "Real":
		return Val{T: to, S: "(to_real " + v.S + ")", Sort: "Real"}
	case fs == "Real" && ts == "Int":
		r := st.freshVal("f2i", to)
		// exact when the float is integral and in range
		return r
	case fs == "Real" && ts == "Real":
		v.T = to
		return v
	case fs == "Slice" && ts == "String":
		// string(bytes)
		x.w.declUF("bytes2str", "(declare-fun bytes2str ((Array Int Int) Int Int) String)")
		et := from.Underlying().(*types.Slice).Elem()
		cls := st.elemClass(et)
		s := "(bytes2str (select " + st.hget(cls) + " (sarr " + v.S + ")) (soff " + v.S + ") (slen " + v.S + "))"
		name := st.define("str", "String", s)
		st.assume("(= (str.len " + name + ") (slen " + v.S + "))")
		return Val{T: to, S: name, Sort: "String"}
	case fs == "String" && ts == "Slice":
		x.w.declUF("bytes2str", "(declare-fun bytes2str ((Array Int Int) Int Int) String)")
		et := to.Underlying().(*types.Slice).Elem()
		cls := st.elemClass(et)
		r := st.newRef("bytes")
		sl := st.define("sl", "Slice", "(mk-slice "+r+" 0 (str.len "+v.S+") (str.len "+v.S+"))")
		st.assume("(= (bytes2str (select " + st.hget(cls) + " " + r + ") 0 (str.len " + v.S + ")) " + v.S + ")")
		return Val{T: to, S: sl, Sort: "Slice"}
	case fs == "Int" && ts == "String":
		x.w.declUF("rune2str", "(declare-fun rune2str (Int) String)")
		return Val{T: to, S: "(rune2str " + v.S + ")", Sort: "String"}
	case fs == "Slice" && ts == "Slice":
		v.T = to
		return v
	}
	x.reject("conversion %s -> %s", from, to)
	return Val{}
}

func (x *Exec) evalSlice(st *State, fr *Frame, in *ssa.Slice) Val {
	base := x.val(st, fr, in.X)
	var lo, hi, mx string
	if in.Low != nil {
		lo = x.val(st, fr, in.Low).S
	}
	if in.High != nil {
		hi = x.val(st, fr, in.High).S
	}
	if in.Max != nil {
		mx = x.val(st, fr, in.Max).S
	}
	switch bt := in.X.Type().Underlying().(type) {
	case *types.Slice:
		if lo == "" {
			lo = "0"
		}
		if hi == "" {
			hi = "(slen " + base.S + ")"
		}
		capv := "(scap " + base.S + ")"
		if mx != "" {
			x.oblige(st, "safety:slice", x.site("slice", in.Pos()), "", x.safetyTags, sAnd("(<= "+hi+" "+mx+")", "(<= "+mx+" "+capv+")"), in.Pos(), "slice bounds out of range")
			capv = mx
		}
		x.oblige(st, "safety:slice", x.site("slice", in.Pos()), "", x.safetyTags, sAnd("(<= 0 "+lo+")", "(<= "+lo+" "+hi+")", "(<= "+hi+" "+capv+")"), in.Pos(), "slice bounds out of range")
		s := st.define("sl", "Slice", "(mk-slice (sarr "+base.S+") (+ (soff "+base.S+") "+lo+") (- "+hi+" "+lo+") (- "+capv+" "+lo+"))")
		return Val{T: in.Type(), S: s, Sort: "Slice"}
	case *types.Basic: // string
		if lo == "" {
			lo = "0"
		}
		if hi == "" {
			hi = "(str.len " + base.S + ")"
		}
		x.oblige(st, "safety:slice", x.site("slice", in.Pos()), "", x.safetyTags, sAnd("(<= 0 "+lo+")", "(<= "+lo+" "+hi+")", "(<= "+hi+" (str.len "+base.S+"))"), in.Pos(), "slice bounds out of range")
		return Val{T: in.Type(), S: "(str.substr " + base.S + " " + lo + " (- " + hi + " " + lo + "))", Sort: "String"}
	case *types.Pointer:
		at := bt.Elem().Underlying().(*types.Array)
		x.nilCheck(st, base, in.Pos(), "slice")
		ba := st.addrOfPtr(base)
		n := fmt.Sprint(at.Len())
		if lo == "" {
			lo = "0"
		}
		if hi == "" {
			hi = n
		}
		x.oblige(st, "safety:slice", x.site("slice", in.Pos()), "", x.safetyTags, sAnd("(<= 0 "+lo+")", "(<= "+lo+" "+hi+")", "(<= "+hi+" "+n+")"), in.Pos(), "slice bounds out of range")
		s := st.define("sl", "Slice", "(mk-slice "+ba.Ref+" "+lo+" (- "+hi+" "+lo+") (- "+n+" "+lo+"))")
		st.last["slice@"+s] = Val{S: ba.Ref, Sort: lo}
		return Val{T: in.Type(), S: s, Sort: "Slice"}
	}
	x.reject("slice of %s", in.X.Type())
	return Val{}
}

func (x *Exec) evalTypeAssert(st *State, fr *Frame, in *ssa.TypeAssert) Val {
	v := x.val(st, fr, in.X)
	at := in.AssertedType
	var okT, res string
	var rv Val
	if _, isIface := at.Underlying().(*types.Interface); isIface {
		// implements-check is not modelled: ok is unknown for non-nil values unless the dynamic type is known
		ok := st.fresh("implements", "Bool")
		st.assume(sImp(sEq("(itag "+v.S+")", "0"), sNot(ok)))
		if c, known := st.conc[v.S]; known && types.Implements(c.T, at.Underlying().(*types.Interface)) {
			st.assume(ok)
		}
		okT = ok
		rv = Val{T: at, S: v.S, Sort: "Iface"}
	} else {
		id := x.w.typeID(at)
		okT = sEq("(itag "+v.S+")", fmt.Sprint(id))
		if c, known := st.conc[v.S]; known && types.Identical(c.T, at) {
			rv = c
			rv.T = at
		} else if isRefType(at) {
			rv = Val{T: at, S: "(iref " + v.S + ")", Sort: "Int"}
		} else {
			// unboxed value unknown: a function of the box
			srt := sortOf(at)
			if srt == "" {
				rv = st.freshVal("unbox", at)
			} else {
				fn := quoteSym("unbox:" + srt)
				x.w.declUF(fn, "(declare-fun "+fn+" (Int) "+srt+")")
				rv = Val{T: at, S: "(" + fn + " (iref " + v.S + "))", Sort: srt}
				st.assumeTypeInv(rv)
			}
		}
	}
	_ = res
	if in.CommaOk {
		tt := in.Type().(*types.Tuple)
		return Val{T: tt, Fs: []Val{rv, {T: tt.At(1).Type(), S: okT, Sort: "Bool"}}}
	}
	x.oblige(st, "safety:typeassert", x.site("typeassert", in.Pos()), "", x.safetyTags, okT, in.Pos(), "type assertion may fail")
	return rv
}

func (x *Exec) lockCheckMap(st *State, m ssa.Value, fr *Frame, write bool, pos token.Pos) {}

var _ = constant.MakeBool
var _ = sort.Strings

func onlyJump(b *ssa.BasicBlock) bool {
	n := 0
	for _, ins := range b.Instrs {
		if _, dbg := ins.(*ssa.DebugRef); dbg {
			continue // debug references (names of locals) have no effect
		}
		if _, ok := ins.(*ssa.Jump); !ok {
			return false
		}
		n++
	}
	return n == 1
}

// tryMergeIf avoids forking on `if c { x = v }` style triangles/diamonds whose branch blocks are empty:
// the phis of the join block become ite terms. Returns false if the pattern does not apply.
func (x *Exec) tryMergeIf(st *State, fr *Frame, b *ssa.BasicBlock, in *ssa.If, c Val, k contK) bool {
	t, f := b.Succs[0], b.Succs[1]
	var join, predT, predF *ssa.BasicBlock
	switch {
	case onlyJump(t) && len(t.Preds) == 1 && t.Succs[0] == f:
		join, predT, predF = f, t, b
	case onlyJump(f) && len(f.Preds) == 1 && f.Succs[0] == t:
		join, predT, predF = t, b, f
	case onlyJump(t) && onlyJump(f) && len(t.Preds) == 1 && len(f.Preds) == 1 && t.Succs[0] == f.Succs[0]:
		join, predT, predF = t.Succs[0], t, f
	default:
		return false
	}
	if isLoopHeader(join) || join == b {
		return false
	}
	idx := func(p *ssa.BasicBlock) int {
		for i, q := range join.Preds {
			if q == p {
				return i
			}
		}
		return -1
	}
	it, iF := idx(predT), idx(predF)
	if it < 0 || iF < 0 {
		return false
	}
	// all phis must have scalar terms on both edges
	type pv struct {
		phi *ssa.Phi
		v   Val
	}
	var pvs []pv
	n := 0
	for _, ins := range join.Instrs {
		phi, ok := ins.(*ssa.Phi)
		if !ok {
			break
		}
		n++
		a, bv := x.val(st, fr, phi.Edges[it]), x.val(st, fr, phi.Edges[iF])
		if a.S == "" || bv.S == "" || a.Sort != bv.Sort {
			return false
		}
		pvs = append(pvs, pv{phi, Val{T: phi.Type(), S: sIte(c.S, a.S, bv.S), Sort: a.Sort}})
	}
	for _, p := range pvs {
		fr.vals[p.phi] = p.v
	}
	x.runInstrs(st, fr, join, predT, n, k)
	return true
}

// sendCheck: a send on a closed channel panics (C12-W2 / C08).
func (x *Exec) sendCheck(st *State, ch Val, pos token.Pos) {
	if _, ok := x.w.classes["ghost:$chclosed"]; !ok || ch.S == "" {
		return
	}
	// channels held in fields declared `neverclosed`: no close() on them exists in the module (checked syntactically)
	for _, gd := range x.w.cs.Guards {
		if gd.Kind == "neverclosed" {
			for _, f := range gd.Fields {
				if strings.Contains(ch.S, "(select "+quoteSym("H0:"+f)+" ") || strings.Contains(ch.S, "_"+sanitize(shortClass(f))+"!") {
					return
				}
			}
		}
	}
	x.oblige(st, "safety:sendclosed", x.site("send", pos), "", append([]string{"C12"}, x.safetyTags...), sNot("(select "+st.hget("ghost:$chclosed")+" "+ch.S+")"), pos, "send on closed channel")
}

// ---- channels: ghost send log and close-only channels ----

// noteSend records a (possibly conditional) send in the ghost fields Chan.$chsends (number of values sent) and
// Chan.$chlast (reference of the value sent last), if the contracts declare them.
func (x *Exec) noteSend(st *State, ch, v Val, cond string) {
	if ch.S == "" {
		return
	}
	if _, ok := x.w.classes["ghost:$chsends"]; ok {
		h := st.hget("ghost:$chsends")
		st.hset("ghost:$chsends", sIte(cond, "(store "+h+" "+ch.S+" (+ (select "+h+" "+ch.S+") 1))", h))
		if x.writesClasses != nil {
			x.writesClasses["ghost:$chsends"] = true
		}
	}
	if _, ok := x.w.classes["ghost:$chlast"]; ok {
		if r, ok := refTerm(v); ok {
			h := st.hget("ghost:$chlast")
			st.hset("ghost:$chlast", sIte(cond, "(store "+h+" "+ch.S+" "+r+")", h))
			if x.writesClasses != nil {
				x.writesClasses["ghost:$chlast"] = true
			}
		}
	}
}

// closeOnlyChan: the channel operand is loaded from a field declared `closeonly` (no send on it anywhere in the module).
func (x *Exec) closeOnlyChan(v ssa.Value) bool { return x.chanDecl("closeonly", v) }

// chanDecl: the channel operand is loaded from a field listed in a declaration of the given kind.
func (x *Exec) chanDecl(kind string, v ssa.Value) bool {
	u, ok := v.(*ssa.UnOp)
	if !ok || u.Op != token.MUL {
		return false
	}
	fa, ok := u.X.(*ssa.FieldAddr)
	if !ok {
		return false
	}
	fc := fieldClass(fa.X.Type().Underlying().(*types.Pointer).Elem(), fa.Field)
	for _, gd := range x.w.cs.Guards {
		if gd.Kind == kind {
			for _, f := range gd.Fields {
				if f == fc {
					return true
				}
			}
		}
	}
	return false
}

func (x *Exec) assumeChanClosed(st *State, ch Val, cond string) {
	if _, ok := x.w.classes["ghost:$chclosed"]; !ok || ch.S == "" {
		return
	}
	st.assume("(=> " + cond + " (select " + st.hget("ghost:$chclosed") + " " + ch.S + "))")
}

// noteRecv records a (conditional) successful receive in Chan.$chrecvs / Chan.$chrecvlast, if declared.
func (x *Exec) noteRecv(st *State, ch, v Val, cond string) {
	if ch.S == "" {
		return
	}
	if _, ok := x.w.classes["ghost:$chrecvs"]; ok {
		h := st.hget("ghost:$chrecvs")
		st.hset("ghost:$chrecvs", sIte(cond, "(store "+h+" "+ch.S+" (+ (select "+h+" "+ch.S+") 1))", h))
		if x.writesClasses != nil {
			x.writesClasses["ghost:$chrecvs"] = true
		}
	}
	if _, ok := x.w.classes["ghost:$chrecvlast"]; ok {
		if r, ok := refTerm(v); ok {
			h := st.hget("ghost:$chrecvlast")
			st.hset("ghost:$chrecvlast", sIte(cond, "(store "+h+" "+ch.S+" "+r+")", h))
			if x.writesClasses != nil {
				x.writesClasses["ghost:$chrecvlast"] = true
			}
		}
	}
}
