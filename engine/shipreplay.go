package main

// shipReplay is the model-driven replay driver for obligations of the SHIP handshake handlers
// (filled in by shipreplay_gen.go); nil when it does not apply.
func shipReplay(w *World, g *oblGroup, o *Obligation, model map[string]string, repo, base string) map[string]interface{} {
	return nil
}
