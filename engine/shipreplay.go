package main

import (
	"encoding/json"
	"fmt"
	"os"
	"path/filepath"
	"regexp"
	"strings"
)

// oracleFor maps an obligation of package ship to the observable oracle the search driver checks.
func oracleFor(g *oblGroup) string {
	n := g.Name
	switch {
	case strings.HasPrefix(g.Kind, "safety:"):
		return "panic"
	case strings.Contains(n, "E1-edge"), strings.Contains(n, "E2-final"), strings.Contains(n, "E3-step"), strings.Contains(n, "I1-reachable"):
		return "edges"
	case strings.Contains(n, "E4-timer"), strings.Contains(n, "I2-timer"):
		return "timer"
	case strings.Contains(n, "E6-"), strings.Contains(n, "I3-closed"), strings.Contains(n, "T5-closed"):
		return "closed"
	case strings.Contains(n, "G1-gate"), strings.Contains(n, "G0-"), strings.Contains(n, "G3-"), strings.Contains(n, "G4-"), strings.Contains(n, "I6-reader"):
		return "gate"
	case strings.Contains(n, ".P1-"), strings.Contains(n, ".P2-"), strings.Contains(n, ".P3-"), strings.Contains(n, ".P4-"), strings.Contains(n, ".P5-"):
		return "pin"
	case strings.Contains(n, "F1-"):
		return "reports"
	case strings.Contains(n, "D3-abort"):
		return "abort"
	case strings.Contains(n, ".B1-"), strings.Contains(n, ".B2-"), strings.Contains(n, ".B3-"), strings.Contains(n, ".B5-"), strings.Contains(n, ".B6-"), strings.Contains(n, ".B7-"), strings.Contains(n, ".B8-"):
		return "delivery"
	}
	return ""
}

var reStateReq = regexp.MustCompile(`c\.smeState == model\.(\w+)`)

// shipReplay searches the bounded scenario space of the SHIP handlers on the real code for a run that
// violates the oracle belonging to the failed obligation (see replay_templates/ship_search_test.go).
func shipReplay(w *World, g *oblGroup, o *Obligation, model map[string]string, repo, base string) map[string]interface{} {
	if !strings.Contains(g.Fn, modPath+"/ship.") {
		return nil
	}
	oracle := oracleFor(g)
	if oracle == "" {
		return nil
	}
	// start states: from the precondition of the function the obligation lives in, else every state
	var states []uint
	key := strings.TrimSuffix(g.Fn, "@iface")
	if fc, ok := w.cs.Funcs[key]; ok {
		for _, rc := range fc.Requires {
			for _, m := range reStateReq.FindAllStringSubmatch(rc.Src, -1) {
				if c, _, ok := w.lookupConst("model."+m[1], fc.Pkg); ok {
					var v uint
					fmt.Sscan(c.ExactString(), &v)
					states = append(states, v)
				}
			}
		}
	}
	if len(states) == 0 {
		for s := uint(0); s <= 39; s++ {
			states = append(states, s)
		}
	}
	edges := map[string]map[string]bool{"client": {}, "server": {}}
	if td, ok := w.cs.Tables["edge"]; ok {
		for _, r := range td.Rows {
			f, t := w.tableVals[r.From], w.tableVals[r.To]
			k := fmt.Sprintf("%d>%d", f, t)
			if r.Role == "" || r.Role == "client" {
				edges["client"][k] = true
			}
			if r.Role == "" || r.Role == "server" {
				edges["server"][k] = true
			}
		}
	}
	tmp, err := os.MkdirTemp("", "govc-shipreplay-")
	if err != nil {
		return nil
	}
	defer os.RemoveAll(tmp)
	req := filepath.Join(tmp, "request.json")
	out := filepath.Join(tmp, "scenario.json")
	writeJSON(req, map[string]interface{}{"oracle": oracle, "states": states, "edges": edges, "max_runs": 60000})
	os.Setenv("REPLAY_REQUEST", req)
	os.Setenv("REPLAY_OUT", out)
	defer os.Unsetenv("REPLAY_REQUEST")
	defer os.Unsetenv("REPLAY_OUT")
	log, ran := runOverlayTest(repo, "ship", "/verif/replay_templates/ship_search_test.go", "TestReplayShipSearch", false)
	rep := strings.Contains(log, "REPRODUCED")
	d := map[string]interface{}{"driver": "bounded scenario search on the real handlers (replay_templates/ship_search_test.go)", "oracle": oracle, "start_states": states, "ran": ran, "reproduced": rep}
	if b, err := os.ReadFile(out); err == nil {
		var sc map[string]interface{}
		json.Unmarshal(b, &sc)
		d["failing_scenario"] = sc
	}
	// keep the relevant lines of the test output
	var keep []string
	for _, ln := range strings.Split(log, "\n") {
		if strings.Contains(ln, "REPRODUCED") || strings.Contains(ln, "no failing run") || strings.Contains(ln, "run budget") || strings.HasPrefix(ln, "ok") || strings.HasPrefix(ln, "FAIL") || strings.Contains(ln, "panic:") {
			keep = append(keep, truncate(ln, 1500))
		}
	}
	d["output"] = keep
	return d
}

// hubOracleFor maps an obligation of package hub to the oracle of replay_templates/hub_search_test.go.
func hubOracleFor(g *oblGroup) string {
	n := g.Name
	switch {
	case strings.Contains(n, "G5-"):
		return "trust"
	case strings.Contains(n, ".F2-"):
		return "forget"
	case strings.Contains(n, ".D2-"), strings.Contains(n, ".D3-"):
		return "unpair"
	case regexp.MustCompile(`\.(S|R|U|X|C|P)\d-`).MatchString(n), strings.Contains(n, "N0-def"):
		return "format"
	}
	return ""
}

func hubReplay(w *World, g *oblGroup, repo string) map[string]interface{} {
	if !strings.Contains(g.Fn, modPath+"/hub.") && !strings.Contains(g.Fn, modPath+"/util.") {
		return nil
	}
	oracle := hubOracleFor(g)
	if oracle == "" {
		return nil
	}
	tmp, err := os.MkdirTemp("", "govc-hubreplay-")
	if err != nil {
		return nil
	}
	defer os.RemoveAll(tmp)
	req := filepath.Join(tmp, "request.json")
	out := filepath.Join(tmp, "scenario.json")
	writeJSON(req, map[string]interface{}{"oracle": oracle})
	os.Setenv("REPLAY_REQUEST", req)
	os.Setenv("REPLAY_OUT", out)
	defer os.Unsetenv("REPLAY_REQUEST")
	defer os.Unsetenv("REPLAY_OUT")
	log, ran := runOverlayTest(repo, "hub", "/verif/replay_templates/hub_search_test.go", "TestReplayHubSearch", false)
	rep := strings.Contains(log, "REPRODUCED")
	d := map[string]interface{}{"driver": "bounded scenario search on the real hub operations (replay_templates/hub_search_test.go)", "oracle": oracle, "ran": ran, "reproduced": rep}
	if b, err := os.ReadFile(out); err == nil {
		var sc map[string]interface{}
		json.Unmarshal(b, &sc)
		d["failing_scenario"] = sc
	}
	var keep []string
	for _, ln := range strings.Split(log, "\n") {
		if strings.Contains(ln, "REPRODUCED") || strings.Contains(ln, "no failing run") || strings.HasPrefix(ln, "ok") || strings.HasPrefix(ln, "FAIL") || strings.Contains(ln, "panic:") {
			keep = append(keep, truncate(ln, 1500))
		}
	}
	d["output"] = keep
	return d
}
