package main

import (
	"fmt"
	"go/token"
	"go/types"
	"os"
	"sort"
	"strings"
	"sync"
	"time"

	"golang.org/x/tools/go/ssa"
)

type FuncResult struct {
	Key        string
	Rejected   string
	Obls       []*Obligation
	Paths      int
	Abstracted []string
	Inlined    []string
	Trusted    []string
	Used       []string // contracts applied (full keys)
	Dep        bool     // verified because a function of the property depends on its contract
	Secs       float64
	Exits      int
}

func osEnviron() []string { return os.Environ() }

func (w *World) newExec(fn *ssa.Function, fc *FuncContract) *Exec {
	x := &Exec{w: w, fn: fn, fnKey: funcKey(fn), fc: fc, interior: map[string]bool{}, nameCnt: map[string]int{}, maxPaths: 4096,
		abstracted: map[string]bool{}, inlined: map[string]bool{}, trustedUsed: map[string]bool{}, usedKeys: map[string]bool{}, callOrd: map[string]int{}, atcallUsed: map[string]bool{}}
	return x
}

func (x *Exec) newState() *State {
	st := &State{x: x, heap: map[string]string{"\x00epoch": "0"}, locks: map[string]int{}, conc: map[string]Val{}, known: map[string]bool{},
		declared: map[string]bool{}, freshRef: map[string]bool{}, ctr: &x.ctr, last: map[string]Val{}}
	st.alloc = st.fresh("alloc0", "Int")
	st.assume("(>= " + st.alloc + " 0)")
	return st
}

// verifyFunc symbolically executes fn against its contract and returns the obligations.
func (w *World) verifyFunc(fn *ssa.Function, fc *FuncContract, safetyTags []string, lockMode bool) (res *FuncResult) {
	t0 := time.Now()
	x := w.newExec(fn, fc)
	x.safetyTags = safetyTags
	x.lockMode = lockMode
	res = &FuncResult{Key: funcKey(fn)}
	defer func() {
		if r := recover(); r != nil {
			if re, ok := r.(rejectErr); ok {
				res.Rejected = string(re)
				res.Obls = nil
				res.Secs = time.Since(t0).Seconds()
				return
			}
			panic(r)
		}
	}()
	st := x.newState()
	w.declClass("ghost:$done", "(Array Int Bool)")
	w.declClass("gg:$decoded", "Int")
	// parameters
	var args []Val
	vars := map[string]Val{}
	for i, p := range fn.Params {
		v := st.freshVal(p.Name(), p.Type())
		args = append(args, v)
		if i == 0 && fn.Signature.Recv() != nil {
			if _, isPtr := p.Type().Underlying().(*types.Pointer); isPtr {
				st.assume(sNot(sEq(v.S, "0")))
			}
			rv := v
			x.absRecv, x.absType = &rv, namedKey(p.Type())
		}
	}
	if fc != nil && strings.HasSuffix(fc.File, "@iface") {
		x.nameSuffix = "@iface"
	}
	var free []Val
	for _, fv := range fn.FreeVars {
		// captured variables are cells: pointers to fresh-but-preexisting memory
		v := st.freshVal(fv.Name(), fv.Type())
		st.assume(sNot(sEq(v.S, "0")))
		free = append(free, v)
	}
	if fc != nil {
		vars = x.bindParams(fc, fn, args)
		if fc.Kind == "closure" {
			// captured variables are cells; contracts of closures see their current contents by name.
			// Captured struct pointers are assumed non-nil with their type invariant (they are the
			// parent's receiver / locals that were dereferenced before the closure was created).
			for i, fv := range fn.FreeVars {
				vars[fv.Name()] = free[i]
				if pt, ok := fv.Type().Underlying().(*types.Pointer); ok && sortOf(pt.Elem()) != "" {
					cv := st.load(st.addrOfPtr(free[i]), pt.Elem())
					vars[fv.Name()] = cv
					if ep, ok := pt.Elem().Underlying().(*types.Pointer); ok {
						if _, isStruct := ep.Elem().Underlying().(*types.Struct); isStruct {
							st.assume(sNot(sEq(cv.S, "0")))
							x.assumeStructInv(st, cv)
						}
					}
				}
			}
		}
	}
	x.entryEnv = vars
	// type invariants of struct-pointer parameters
	for _, v := range args {
		x.assumeStructInv(st, v)
	}
	if fc != nil {
		env := &specEnv{w: w, pkg: fc.Pkg, vars: vars, st: st, heap: st.heap}
		var pres []string
		for _, rc := range fc.Requires {
			g, err := env.evalBool(rc.E)
			if err != nil {
				x.reject("contract of %s: requires %q: %v", fc.Key, rc.Src, err)
			}
			st.assume(g)
			pres = append(pres, g)
		}
		// cover: the precondition (with type invariants) must be satisfiable
		o := &Obligation{Name: x.oblName("cover", "requires", ""), Fn: x.fnKey, Kind: "cover", Goal: "false", Cover: true, Src: "precondition is satisfiable"}
		o.Log = append([]string{}, st.log...)
		x.obls = append(x.obls, o)
	}
	// invariants over package-level variables: established by the package initialiser, assumed elsewhere
	var ginvs []*Clause
	isInit := fn.Name() == "init" && fn.Signature.Recv() == nil
	if fn.Pkg != nil {
		ginvs = w.cs.GlobalInvs[fn.Pkg.Pkg.Path()]
	} else if fn.Parent() != nil && fn.Parent().Pkg != nil {
		ginvs = w.cs.GlobalInvs[fn.Parent().Pkg.Pkg.Path()]
	}
	if !isInit {
		for _, gi := range ginvs {
			genv := &specEnv{w: w, pkg: gi.File, vars: map[string]Val{}, st: st, heap: st.heap}
			genv.pkg = pkgOfClause(w, gi)
			g, err := genv.evalBool(gi.E)
			if err != nil {
				x.reject("globalinv %q: %v", gi.Src, err)
			}
			st.assume(g)
		}
	}
	// object invariants: assumed at entry of `entry` methods
	var objinvs []*TypeInv
	var recvVal Val
	if fc != nil && fc.Entry && fn.Signature.Recv() != nil && len(args) > 0 {
		recvVal = args[0]
		objinvs = w.cs.ObjInvs[namedKey(fn.Signature.Recv().Type())]
		for _, oi := range objinvs {
			env := &specEnv{w: w, pkg: oi.Pkg, vars: map[string]Val{oi.Var: recvVal}, st: st, heap: st.heap}
			g, err := env.evalBool(oi.E)
			if err != nil {
				x.reject("objinv of %s: %v", oi.Type, err)
			}
			st.assume(g)
		}
	}
	x.initHeap = st.snapshot()
	x.initAlloc = st.alloc
	x.writesClasses = map[string]bool{}
	exits := 0
	x.runFunc(st, fn, args, free, 0, true, func(st *State, rs []Val) {
		exits++
		x.pathID++
		// cover: at least one exit path of the function must be feasible (vacuity guard)
		co := &Obligation{Name: x.oblName("cover", "exit", ""), Fn: x.fnKey, Kind: "cover", Goal: "false", Cover: true, Src: "some path through the function reaches a return", PathID: x.pathID}
		co.Log = append([]string{}, st.log...)
		x.obls = append(x.obls, co)
		if fc == nil {
			return
		}
		env := &specEnv{w: w, pkg: fc.Pkg, vars: vars, st: st, heap: st.heap, old: x.oldOf(st), result: rs}
		for i, ec := range fc.Ensures {
			g, err := env.evalBool(ec.E)
			if err != nil {
				x.reject("contract of %s: ensures %q: %v", fc.Key, ec.Src, err)
			}
			label := ec.Label
			if label == "" {
				label = fmt.Sprintf("ensures%d", i)
			}
			x.oblige(st, "post", "", label, ec.Tags, g, fn.Pos(), ec.Src)
		}
		if isInit {
			for i, gi := range ginvs {
				genv := &specEnv{w: w, pkg: pkgOfClause(w, gi), vars: map[string]Val{}, st: st, heap: st.heap}
				g, err := genv.evalBool(gi.E)
				if err != nil {
					x.reject("globalinv %q: %v", gi.Src, err)
				}
				label := gi.Label
				if label == "" {
					label = fmt.Sprintf("globalinv%d", i)
				}
				x.oblige(st, "globalinv", "", label, gi.Tags, g, fn.Pos(), gi.Src)
			}
		}
		// constructors / initialisers: the object invariants of the objects they hand out hold at exit
		for _, ee := range fc.Establishes {
			ov, err := env.evalSafe(ee)
			if err != nil {
				x.reject("contract of %s: establishes %s: %v", fc.Key, exprString(ee), err)
			}
			if ov.T == nil {
				x.reject("contract of %s: establishes %s: untyped value", fc.Key, exprString(ee))
			}
			for i, oi := range w.cs.ObjInvs[namedKey(ov.T)] {
				oenv := &specEnv{w: w, pkg: oi.Pkg, vars: map[string]Val{oi.Var: ov}, st: st, heap: st.heap, old: x.oldOf(st)}
				g, err := oenv.evalBool(oi.E)
				if err != nil {
					x.reject("objinv of %s: %v", oi.Type, err)
				}
				label := oi.Label
				if label == "" {
					label = fmt.Sprintf("objinv%d", i)
				}
				x.oblige(st, "establish", "", label, oi.Tags, g, fn.Pos(), "established for "+exprString(ee)+": "+oi.Src)
			}
		}
		for i, oi := range objinvs {
			oenv := &specEnv{w: w, pkg: oi.Pkg, vars: map[string]Val{oi.Var: recvVal}, st: st, heap: st.heap, old: x.oldOf(st)}
			g, err := oenv.evalBool(oi.E)
			if err != nil {
				x.reject("objinv of %s: %v", oi.Type, err)
			}
			label := oi.Label
			if label == "" {
				label = fmt.Sprintf("objinv%d", i)
			}
			x.oblige(st, "objinv", "", label, oi.Tags, g, fn.Pos(), oi.Src)
		}
		x.frameCheck(st, fc, env)
	})
	if fc != nil {
		for name, cls := range fc.AtCalls {
			if !x.atcallUsed[name] {
				for _, ac := range cls {
					x.obls = append(x.obls, &Obligation{Name: x.oblName("atcall", name, ac.Label), Fn: x.fnKey, Kind: "atcall", Tags: ac.Tags, Label: ac.Label, Goal: "false", Src: "no call of " + name + " found: the clause has lost its call site (" + ac.Src + ")", Status: "sat", Solver: "syntactic"})
				}
			}
		}
	}
	res.Exits = exits
	res.Obls = x.obls
	res.Paths = x.paths + 1
	for a := range x.abstracted {
		res.Abstracted = append(res.Abstracted, a)
	}
	for a := range x.inlined {
		res.Inlined = append(res.Inlined, a)
	}
	for a := range x.trustedUsed {
		res.Trusted = append(res.Trusted, a)
	}
	for a := range x.usedKeys {
		res.Used = append(res.Used, a)
	}
	sort.Strings(res.Used)
	sort.Strings(res.Abstracted)
	sort.Strings(res.Inlined)
	sort.Strings(res.Trusted)
	res.Secs = time.Since(t0).Seconds()
	return res
}

func (x *Exec) assumeStructInv(st *State, v Val) {
	if v.T == nil {
		return
	}
	p, ok := v.T.Underlying().(*types.Pointer)
	if !ok {
		return
	}
	ti, ok := x.w.cs.TypeInvs[namedKey(p.Elem())]
	if !ok {
		return
	}
	env := &specEnv{w: x.w, pkg: ti.Pkg, vars: map[string]Val{ti.Var: v}, st: st, heap: st.heap}
	g, err := env.evalBool(ti.E)
	if err != nil {
		x.reject("typeinv of %s: %v", ti.Type, err)
	}
	st.assume(sImp(sNot(sEq(v.S, "0")), g))
}

// frameCheck proves that nothing outside the `modifies` clause changed for objects that existed at entry.
func (x *Exec) frameCheck(st *State, fc *FuncContract, env *specEnv) {
	if fc.ModAll || fc.Kind == "closure" {
		// closures run as goroutines / once-bodies: their `modifies` describes the spawn effect only
		return
	}
	for _, fg := range x.frameGoals(st, fc, env.vars, nil) {
		x.oblige(st, "frame", "", fg[0], nil, fg[1], x.fn.Pos(), "only the locations in `modifies` change: "+fg[0])
	}
}

// frameGoals returns (label, goal) pairs stating that heap classes differing from the entry heap differ
// only at the locations the contract allows. If only != nil, just those classes are considered.
func (x *Exec) frameGoals(st *State, fc *FuncContract, vars map[string]Val, only map[string]bool) (out [][2]string) {
	env := &specEnv{vars: vars}
	type allow struct {
		whole bool
		refs  []string
		idxs  [][2]string
	}
	allowed := map[string]*allow{}
	get := func(c string) *allow {
		if allowed[c] == nil {
			allowed[c] = &allow{}
		}
		return allowed[c]
	}
	oldEnv := &specEnv{w: x.w, pkg: fc.Pkg, vars: env.vars, st: st, heap: x.initHeap}
	for _, m := range fc.Modifies {
		class, ref, idx := x.classOfEntry(st, fc, m, oldEnv)
		a := get(class)
		switch {
		case ref == "" && idx == "":
			a.whole = true
		case strings.HasPrefix(class, "mapP:"):
			a.idxs = append(a.idxs, [2]string{ref, idx})
			get("mapV:"+class[5:]).idxs = append(get("mapV:"+class[5:]).idxs, [2]string{ref, idx})
		case ref == "":
			a.idxs = append(a.idxs, [2]string{"", idx})
		default:
			a.refs = append(a.refs, ref)
		}
	}
	var classes []string
	for c, t := range st.heap {
		if c == "\x00epoch" {
			continue
		}
		if only != nil && !only[c] {
			continue
		}
		if x.nameSuffix == "@iface" && !strings.HasPrefix(c, "gg:") && !strings.HasPrefix(c, "ghost:") {
			continue // an interface contract frames only the abstract (ghost) state its clients see
		}
		init := x.initHeap[c]
		if init == "" {
			init = st.heapInit(x.initHeap, c)
		}
		if t != init {
			classes = append(classes, c)
		}
	}
	if st.heap["\x00epoch"] != x.initHeap["\x00epoch"] {
		// a callee havoc'd everything: the frame cannot be proved
		return [][2]string{{"havoc-all", "false"}}
	}
	_ = allowed
	sort.Strings(classes)
	for _, c := range classes {
		a := allowed[c]
		if a != nil && a.whole {
			continue
		}
		srt := x.w.classes[c]
		cur := st.heap[c]
		init := x.initHeap[c]
		if init == "" {
			init = st.heapInit(x.initHeap, c)
		}
		var goal string
		switch {
		case strings.HasPrefix(c, "gg:"):
			if strings.HasPrefix(srt, "(Array ") {
				ks := keySortOfArray(srt)
				var ex []string
				if a != nil {
					for _, ix := range a.idxs {
						ex = append(ex, sNot(sEq("k", ix[1])))
					}
				}
				goal = "(forall ((k " + ks + ")) " + sImp(sAnd(ex...), "(= (select "+cur+" k) (select "+init+" k))") + ")"
			} else {
				goal = sEq(cur, init)
			}
		case strings.HasPrefix(c, "mapP:") || strings.HasPrefix(c, "mapV:") || strings.HasPrefix(c, "elems:"):
			inner := elemSortOfArray(srt)
			ks := keySortOfArray(inner)
			var ex []string
			if a != nil {
				for _, ix := range a.idxs {
					ex = append(ex, sNot(sAnd(sEq("r", ix[0]), sEq("k", ix[1]))))
				}
			}
			goal = "(forall ((r Int) (k " + ks + ")) " + sImp(sAnd(append([]string{"(<= r " + x.initAlloc + ")", "(>= r 0)"}, ex...)...), "(= (select (select "+cur+" r) k) (select (select "+init+" r) k))") + ")"
		default:
			var ex []string
			if a != nil {
				for _, r := range a.refs {
					ex = append(ex, sNot(sEq("r", r)))
				}
			}
			goal = "(forall ((r Int)) " + sImp(sAnd(append([]string{"(<= r " + x.initAlloc + ")", "(>= r 0)"}, ex...)...), "(= (select "+cur+" r) (select "+init+" r))") + ")"
		}
		out = append(out, [2]string{shortKey(c), goal})
	}
	return out
}

// ---- solving ----

type SolveStats struct {
	PerBackend map[string]int
	Secs       map[string]float64
	Queries    int
}

func (w *World) script(o *Obligation, withModel bool) string {
	var b strings.Builder
	b.WriteString(w.prelude())
	for _, l := range o.Log {
		b.WriteString(l)
		b.WriteByte('\n')
	}
	if !o.Cover {
		b.WriteString("(assert (not " + o.Goal + "))\n")
	}
	b.WriteString("(check-sat)\n")
	if withModel {
		b.WriteString("(get-model)\n")
	}
	return b.String()
}

// solve discharges all obligations; trivial ones are marked discharged without a solver call.
func (w *World) solve(obls []*Obligation, timeoutMs int, thorough bool, stats *SolveStats) {
	if stats.PerBackend == nil {
		stats.PerBackend = map[string]int{}
		stats.Secs = map[string]float64{}
	}
	var pending []*Obligation
	for _, o := range obls {
		if o.Solver == "syntactic" && o.Status != "" {
			if o.Status == "unsat" {
				stats.PerBackend["syntactic"]++
			}
			continue
		}
		if o.Status == "trivial" {
			o.Status = "unsat"
			o.Solver = "syntactic"
			stats.PerBackend["syntactic"]++
			continue
		}
		pending = append(pending, o)
	}
	// batch pass with z3-new, chunks in parallel
	prelude := w.prelude()
	chunk := 40
	var wg sync.WaitGroup
	sem := make(chan struct{}, 16)
	var mu sync.Mutex
	for i := 0; i < len(pending); i += chunk {
		j := i + chunk
		if j > len(pending) {
			j = len(pending)
		}
		part := pending[i:j]
		wg.Add(1)
		sem <- struct{}{}
		go func(part []*Obligation) {
			defer wg.Done()
			defer func() { <-sem }()
			var b strings.Builder
			b.WriteString(prelude)
			for _, o := range part {
				b.WriteString("(push 1)\n")
				for _, l := range o.Log {
					b.WriteString(l)
					b.WriteByte('\n')
				}
				if !o.Cover {
					b.WriteString("(assert (not " + o.Goal + "))\n")
				}
				b.WriteString("(check-sat)\n(pop 1)\n")
			}
			sts, out, secs := runBatch("z3-new", b.String(), timeoutMs)
			mu.Lock()
			stats.Secs["z3-new"] += secs
			stats.Queries += len(part)
			mu.Unlock()
			if len(sts) > len(part) {
				for _, o := range part {
					o.Status = "error"
					o.Output = "batch produced " + fmt.Sprint(len(sts)) + " answers for " + fmt.Sprint(len(part)) + " queries: " + firstLines(out, 5)
				}
				return
			}
			// fewer answers than queries: the solver got stuck on query number len(sts) and was stopped. The answers
			// it gave stand; the stuck query and the ones behind it go to the individual race.
			for k, o := range part {
				o.Solver = "z3-new"
				if k < len(sts) {
					o.Status = sts[k]
				} else if k == len(sts) {
					o.Status = "timeout"
					o.Output = "the batch stopped at this query"
				} else {
					o.Status = "unknown"
					o.Output = "not reached in the batch"
				}
			}
		}(part)
	}
	wg.Wait()
	// anything not decided as expected is raced individually on all solvers, with models
	var hard []*Obligation
	for _, o := range pending {
		want := "unsat"
		if o.Cover {
			want = "sat"
		}
		if o.Status == want {
			stats.PerBackend[o.Solver]++
			continue
		}
		if o.Cover && o.Status == "unsat" {
			continue // a definite answer: this path is infeasible (the cover group needs one feasible instance)
		}
		if o.Cover && (o.Status == "unknown" || o.Status == "timeout") {
			// a cover only has to rule out a contradictory context: anything but `unsat` is acceptable
			// (quantified assumptions often make the solver give up on building a model)
			o.Status = "sat"
			o.Output = "solver answered unknown; not unsat, so the context is not shown contradictory"
			stats.PerBackend[o.Solver+"(cover:not-unsat)"]++
			continue
		}
		hard = append(hard, o)
	}
	solvers := []string{"z3-new", "z3", "cvc5"}
	if os.Getenv("GOVC_SLOW") != "" {
		for _, o := range hard {
			fmt.Printf("SLOW %s (%s) batch status %s %s\n", o.Name, o.Kind, o.Status, truncate(o.Output, 300))
		}
	}
	for _, o := range hard {
		wg.Add(1)
		sem <- struct{}{}
		go func(o *Obligation) {
			defer wg.Done()
			defer func() { <-sem }()
			rs := raceSingle(w.script(o, true), timeoutMs*3, solvers)
			want := "unsat"
			if o.Cover {
				want = "sat"
			}
			var sat, unsat *SolverResult
			for i := range rs {
				switch rs[i].Status {
				case "sat":
					if sat == nil {
						sat = &rs[i]
					}
				case "unsat":
					if unsat == nil {
						unsat = &rs[i]
					}
				}
			}
			mu.Lock()
			defer mu.Unlock()
			for _, r := range rs {
				stats.Secs[r.Solver] += r.Secs
			}
			stats.Queries += len(rs)
			switch {
			case sat != nil && unsat != nil:
				o.Status = "tool-error"
				o.Output = "solvers disagree: " + sat.Solver + " sat, " + unsat.Solver + " unsat"
			case want == "unsat" && unsat != nil:
				o.Status, o.Solver = "unsat", unsat.Solver
				stats.PerBackend[unsat.Solver]++
			case want == "sat" && sat != nil:
				o.Status, o.Solver = "sat", sat.Solver
				stats.PerBackend[sat.Solver]++
			case sat != nil:
				o.Status, o.Solver, o.Output = "sat", sat.Solver, sat.Output
			case unsat != nil:
				o.Status, o.Solver, o.Output = "unsat", unsat.Solver, unsat.Output
			default:
				o.Status = "unknown"
				var outs []string
				for _, r := range rs {
					outs = append(outs, r.Solver+": "+r.Status+" "+firstLines(r.Output, 2))
				}
				o.Output = strings.Join(outs, " | ")
			}
		}(o)
	}
	wg.Wait()
	// last resort for obligations nobody decided: one at a time, with the machine to itself and a long limit. A query
	// that takes a second on an idle machine can run into the limits above when many checks share the cores; an
	// undecided obligation is reported as a violation, so a load-induced `unknown` would be a false alarm.
	retried := 0
	for _, o := range hard {
		if o.Status != "unknown" && o.Status != "timeout" {
			continue
		}
		if retried >= 6 {
			break // a genuinely broken tree can leave many quantified goals open; do not spend minutes on each
		}
		retried++
		// (without model production: asking for models changes how z3 treats the quantifiers, and the batch stage,
		// which decides these goals on an idle machine, does not ask for them either)
		rs := raceSingle(w.script(o, false), timeoutMs*9, []string{"z3-new", "z3"})
		for _, r := range rs {
			stats.Secs[r.Solver] += r.Secs
			want := "unsat"
			if o.Cover {
				want = "sat"
			}
			if r.Status == want {
				o.Status, o.Solver = want, r.Solver
				stats.PerBackend[r.Solver+"(retry)"]++
				break
			}
			if r.Status == "sat" || r.Status == "unsat" {
				o.Status, o.Solver, o.Output = r.Status, r.Solver, r.Output
				break
			}
		}
	}
	if thorough {
		// every discharged obligation must also be confirmed individually by a second solver
		var again []*Obligation
		for _, o := range pending {
			if !o.Cover && o.Status == "unsat" {
				again = append(again, o)
			}
		}
		for _, o := range again {
			wg.Add(1)
			sem <- struct{}{}
			go func(o *Obligation) {
				defer wg.Done()
				defer func() { <-sem }()
				rs := raceSingle(w.script(o, false), timeoutMs*3, []string{"z3", "cvc5"})
				mu.Lock()
				defer mu.Unlock()
				for _, r := range rs {
					stats.Secs[r.Solver] += r.Secs
					if r.Status == "sat" {
						o.Status = "tool-error"
						o.Output = "solvers disagree: " + o.Solver + " unsat, " + r.Solver + " sat"
					}
					if r.Status == "unsat" {
						stats.PerBackend[r.Solver+"(confirm)"]++
					}
				}
			}(o)
		}
		wg.Wait()
	}
}

func firstLines(s string, n int) string {
	ls := strings.Split(strings.TrimSpace(s), "\n")
	if len(ls) > n {
		ls = ls[:n]
	}
	return strings.Join(ls, " / ")
}

var _ = token.NoPos

// ifaceAsContract turns the interface contract a function `implements` into a contract of that function.
func (w *World) ifaceAsContract(fc *FuncContract) *FuncContract {
	ic, ok := w.cs.Funcs[fc.Implements]
	if !ok {
		return nil
	}
	d := *ic
	d.Kind = "func"
	d.Key = fc.Key
	d.Recv = "this"
	d.Entry = true // the implementation's object invariants are available (and re-proved)
	d.Inline = false
	d.File = ic.File + "@iface"
	d.Tags = fc.Tags
	// ghost attributes defined over the implementation's real fields (ghostdef): the interface contract's frame speaks
	// about the attributes, the implementation's own contract carries the frame over the fields
	for k := range w.cs.GhostDefs {
		if i := strings.LastIndex(fc.Key, ")."); i > 0 && strings.HasPrefix(k, strings.TrimPrefix(strings.TrimPrefix(fc.Key[:i], "("), "*")+".") {
			d.ModAll = true
		}
	}
	return &d
}

func pkgOfClause(w *World, c *Clause) string {
	rel := strings.TrimPrefix(strings.TrimPrefix(c.File, w.repo), "/")
	if i := strings.LastIndex(rel, "/"); i >= 0 {
		return modPath + "/" + rel[:i]
	}
	return modPath
}
