package main

// Bounded stand-ins (labelled bounded, never counted as proved): the real functions of /repo are run on a
// stated finite scope by Go tests under /verif/bounded; this file runs them and writes the evidence.

import (
	"encoding/json"
	"fmt"
	"os"
	"os/exec"
	"path/filepath"
	"sort"
	"strconv"
	"strings"
	"time"
)

type boundedResult struct {
	Evaluations int               `json:"evaluations"`
	Distinct    int               `json:"distinct_nontrivial"`
	Failures    map[string]int    `json:"failures_by_category"`
	Examples    map[string]string `json:"minimal_example_by_category"`
	Samples     []string          `json:"samples"`
	Scope       string            `json:"scope"`
	CleanDocs   int               `json:"documents_without_known_cause"`
	CleanPassed int               `json:"documents_without_known_cause_passed"`
	Checks      map[string]int    `json:"checks"`
}

func runBounded(repo, test, tier string, seed int) (*boundedResult, string, error) {
	out := filepath.Join(os.TempDir(), fmt.Sprintf("bounded-%s-%d.json", test, time.Now().UnixNano()))
	defer os.Remove(out)
	cmd := exec.Command("/verif/bounded/run.sh", test, out)
	if test == "TestC16" {
		cmd = exec.Command("/verif/bounded/run_inpkg.sh", "mdns", "/verif/bounded/inpkg/mdns_c16_test.go", test, out)
	}
	if test == "TestC07Wire" {
		cmd = exec.Command("/verif/bounded/run_inpkg.sh", "ship", "/verif/bounded/inpkg/ship_c07_test.go", test, out)
	}
	if test == "TestC17Hub" {
		cmd = exec.Command("/verif/bounded/run_inpkg.sh", "hub", "/verif/bounded/inpkg/hub_c17_test.go", test, out)
	}
	if test == "TestC17" {
		cmd = exec.Command("/verif/bounded/run_inpkg.sh", "mdns", "/verif/bounded/inpkg/mdns_c17_test.go", test, out)
	}
	cmd.Env = append(os.Environ(), "REPO="+repo, "VERIF_TIER="+tier, "VERIF_SEED="+strconv.Itoa(seed))
	b, err := cmd.CombinedOutput()
	if err != nil {
		return nil, string(b), err
	}
	data, err := os.ReadFile(out)
	if err != nil {
		return nil, string(b), err
	}
	var r boundedResult
	if err := json.Unmarshal(data, &r); err != nil {
		return nil, string(b), err
	}
	return &r, string(b), nil
}

// boundedCheck runs the stand-in of a property and classifies its failures against known-findings.txt.
// It returns the evidence fragment, printed lines and whether an unlisted violation was found.
func boundedCheck(prop, test, repo, tier string, seed int, kfs []knownFinding, replays string) (map[string]interface{}, int) {
	r, log, err := runBounded(repo, test, tier, seed)
	if err != nil {
		path := filepath.Join(replays, prop+"-bounded-error.json")
		writeJSON(path, map[string]interface{}{"property": prop, "obligation": "bounded:" + prop + ":harness", "error": err.Error(), "output": truncate(log, 4000)})
		fmt.Printf("  bounded stand-in %s did not run: %v\n", test, err)
		fmt.Printf("VIOLATION property=%s replay=%s no-failing-input-found\n", prop, path)
		return map[string]interface{}{"error": err.Error()}, 1
	}
	vio := 0
	var known []string
	var cats []string
	for c := range r.Failures {
		cats = append(cats, c)
	}
	sort.Strings(cats)
	reported := map[string]bool{}
	for _, c := range cats {
		// a failure category is a '+'-joined set of causes; it is explained when every cause is a known finding
		explained := c != "UNCLASSIFIED"
		for _, cause := range strings.Split(c, "+") {
			name := "bounded:" + prop + ":" + cause
			ok := false
			for _, kf := range kfs {
				if kf.Kind == "finding" && kf.Property == prop && globMatch(kf.Obligation, name) {
					ok = true
					if !reported[name] {
						reported[name] = true
						fmt.Printf("KNOWN-FINDING: property=%s %s (obligation %s)\n", prop, kf.What, name)
						known = append(known, name)
					}
				}
			}
			if !ok {
				explained = false
			}
		}
		if !explained {
			vio++
			path := filepath.Join(replays, fmt.Sprintf("%s-bounded-%s-%s.json", prop, test, sanitize(c)))
			writeJSON(path, map[string]interface{}{"property": prop, "obligation": "bounded:" + prop + ":" + c, "failing_input_and_observation": r.Examples[c], "count": r.Failures[c],
				"how_to_replay": "run the real function of /repo on the input shown (see /verif/bounded/" + strings.ToLower(prop) + "_test.go)", "reproduced_on_real_code": true})
			fmt.Printf("  bounded stand-in: %d failing inputs of category %s, e.g. %s\n", r.Failures[c], c, truncate(r.Examples[c], 300))
			fmt.Printf("VIOLATION property=%s replay=%s\n", prop, path)
		}
	}
	if r.CleanDocs == 0 && r.Checks == nil {
		path := filepath.Join(replays, prop+"-bounded-vacuous.json")
		writeJSON(path, map[string]interface{}{"property": prop, "obligation": "bounded:" + prop + ":vacuity", "status": "no input without a known cause was generated"})
		fmt.Printf("VIOLATION property=%s replay=%s no-failing-input-found\n", prop, path)
		vio++
	}
	ev := map[string]interface{}{
		"bounded":                              true,
		"scope":                                r.Scope,
		"evaluations":                          r.Evaluations,
		"distinct_nontrivial":                  r.Distinct,
		"failures_by_category":                 r.Failures,
		"minimal_example_by_category":          r.Examples,
		"inputs_without_known_cause":           r.CleanDocs,
		"inputs_without_known_cause_that_pass": r.CleanPassed,
		"known_findings":                       known,
		"samples":                              r.Samples,
		"checks":                               r.Checks,
	}
	return ev, vio
}

func cmdBounded(args []string) {
	fmt.Println("use: govc check -prop C07|C16 (the bounded stand-in runs as part of the check)")
	os.Exit(2)
}
