package main

// Specification expression language used in //@ contract lines.
//
//   e ::= literal | ident | e.f | e[i] | f(args) | old(e) | len(e) | !e | -e
//       | e op e        op in  <==> ==> || && == != < <= > >= + - * / % ++ in
//       | {e, e, ...}   (finite set, only right of `in`)
//       | forall x: Sort :: e | exists x: Sort :: e
//
// Precedence, lowest first: <==>, ==> (right assoc), ||, &&, comparisons / in, + -, * / %, unary, postfix.

import (
	"fmt"
	"strings"
	"unicode"
)

type Expr interface{}

type (
	EIdent struct{ Name string }
	EInt   struct{ V string }
	EStr   struct{ V string }
	EBool  struct{ V bool }
	ENil   struct{}
	EField struct {
		X    Expr
		Name string
	}
	EIndex struct{ X, I Expr }
	ECall  struct {
		Fn   string
		Args []Expr
	}
	EUn struct {
		Op string
		X  Expr
	}
	EBin struct {
		Op   string
		L, R Expr
	}
	EQuant struct {
		Forall bool
		Var    string
		Sort   string
		Body   Expr
	}
	ESet struct{ Elems []Expr }
)

type tok struct {
	kind string // id, int, str, op, eof
	s    string
}

func lexSpec(s string) ([]tok, error) {
	var out []tok
	i := 0
	for i < len(s) {
		c := s[i]
		switch {
		case c == ' ' || c == '\t':
			i++
		case unicode.IsLetter(rune(c)) || c == '_' || c == '$':
			j := i + 1
			for j < len(s) && (unicode.IsLetter(rune(s[j])) || unicode.IsDigit(rune(s[j])) || s[j] == '_' || s[j] == '$') {
				j++
			}
			out = append(out, tok{"id", s[i:j]})
			i = j
		case unicode.IsDigit(rune(c)):
			j := i + 1
			for j < len(s) && (unicode.IsDigit(rune(s[j])) || s[j] == 'x' || (s[j] >= 'a' && s[j] <= 'f') || (s[j] >= 'A' && s[j] <= 'F')) {
				j++
			}
			out = append(out, tok{"int", s[i:j]})
			i = j
		case c == '"':
			j := i + 1
			var sb strings.Builder
			for j < len(s) && s[j] != '"' {
				if s[j] == '\\' && j+1 < len(s) {
					j++
				}
				sb.WriteByte(s[j])
				j++
			}
			if j >= len(s) {
				return nil, fmt.Errorf("unterminated string in %q", s)
			}
			out = append(out, tok{"str", sb.String()})
			i = j + 1
		default:
			ops := []string{"<==>", "==>", "::", "&&", "||", "==", "!=", "<=", ">=", "++", "<", ">", "+", "-", "*", "/", "%", "!", "(", ")", "[", "]", "{", "}", ",", ".", ":"}
			matched := false
			for _, op := range ops {
				if strings.HasPrefix(s[i:], op) {
					out = append(out, tok{"op", op})
					i += len(op)
					matched = true
					break
				}
			}
			if !matched {
				return nil, fmt.Errorf("unexpected character %q in %q", c, s)
			}
		}
	}
	out = append(out, tok{"eof", ""})
	return out, nil
}

type specParser struct {
	toks []tok
	p    int
	src  string
}

func parseSpec(s string) (e Expr, err error) {
	toks, err := lexSpec(s)
	if err != nil {
		return nil, err
	}
	ps := &specParser{toks: toks, src: s}
	defer func() {
		if r := recover(); r != nil {
			if pe, ok := r.(parseErr); ok {
				err = fmt.Errorf("%s in %q", string(pe), s)
				return
			}
			panic(r)
		}
	}()
	e = ps.iff()
	if ps.peek().kind != "eof" {
		ps.fail("trailing input at " + ps.peek().s)
	}
	return e, nil
}

type parseErr string

func (ps *specParser) fail(m string) { panic(parseErr(m)) }
func (ps *specParser) peek() tok     { return ps.toks[ps.p] }
func (ps *specParser) next() tok     { t := ps.toks[ps.p]; ps.p++; return t }
func (ps *specParser) isOp(s string) bool {
	t := ps.peek()
	return t.kind == "op" && t.s == s
}
func (ps *specParser) isID(s string) bool {
	t := ps.peek()
	return t.kind == "id" && t.s == s
}
func (ps *specParser) expect(s string) {
	if !ps.isOp(s) {
		ps.fail("expected " + s + " got " + ps.peek().s)
	}
	ps.p++
}

func (ps *specParser) iff() Expr {
	l := ps.implies()
	for ps.isOp("<==>") {
		ps.next()
		r := ps.implies()
		l = EBin{"<==>", l, r}
	}
	return l
}
func (ps *specParser) implies() Expr {
	l := ps.or()
	if ps.isOp("==>") {
		ps.next()
		r := ps.implies()
		return EBin{"==>", l, r}
	}
	return l
}
func (ps *specParser) or() Expr {
	l := ps.and()
	for ps.isOp("||") {
		ps.next()
		l = EBin{"||", l, ps.and()}
	}
	return l
}
func (ps *specParser) and() Expr {
	l := ps.cmp()
	for ps.isOp("&&") {
		ps.next()
		l = EBin{"&&", l, ps.cmp()}
	}
	return l
}
func (ps *specParser) cmp() Expr {
	l := ps.add()
	for {
		t := ps.peek()
		if t.kind == "op" && (t.s == "==" || t.s == "!=" || t.s == "<" || t.s == "<=" || t.s == ">" || t.s == ">=") {
			ps.next()
			l = EBin{t.s, l, ps.add()}
			continue
		}
		if t.kind == "id" && t.s == "in" {
			ps.next()
			l = EBin{"in", l, ps.add()}
			continue
		}
		if t.kind == "id" && t.s == "notin" {
			ps.next()
			l = EUn{"!", EBin{"in", l, ps.add()}}
			continue
		}
		return l
	}
}
func (ps *specParser) add() Expr {
	l := ps.mul()
	for ps.isOp("+") || ps.isOp("-") || ps.isOp("++") {
		op := ps.next().s
		l = EBin{op, l, ps.mul()}
	}
	return l
}
func (ps *specParser) mul() Expr {
	l := ps.unary()
	for ps.isOp("*") || ps.isOp("/") || ps.isOp("%") {
		op := ps.next().s
		l = EBin{op, l, ps.unary()}
	}
	return l
}
func (ps *specParser) unary() Expr {
	if ps.isOp("!") {
		ps.next()
		return EUn{"!", ps.unary()}
	}
	if ps.isOp("-") {
		ps.next()
		return EUn{"-", ps.unary()}
	}
	return ps.postfix()
}
func (ps *specParser) postfix() Expr {
	e := ps.primary()
	for {
		switch {
		case ps.isOp("."):
			ps.next()
			t := ps.next()
			if t.kind != "id" && t.kind != "int" {
				ps.fail("expected field name after '.'")
			}
			e = EField{e, t.s}
		case ps.isOp("["):
			ps.next()
			i := ps.iff()
			ps.expect("]")
			e = EIndex{e, i}
		default:
			return e
		}
	}
}
func (ps *specParser) primary() Expr {
	t := ps.next()
	switch t.kind {
	case "int":
		return EInt{t.s}
	case "str":
		return EStr{t.s}
	case "id":
		switch t.s {
		case "true":
			return EBool{true}
		case "false":
			return EBool{false}
		case "nil":
			return ENil{}
		case "forall", "exists":
			v := ps.next()
			if v.kind != "id" {
				ps.fail("expected bound variable")
			}
			ps.expect(":")
			sort := ps.next()
			ps.expect("::")
			body := ps.iff()
			return EQuant{t.s == "forall", v.s, sort.s, body}
		}
		if ps.isOp("(") {
			ps.next()
			var args []Expr
			if !ps.isOp(")") {
				for {
					args = append(args, ps.iff())
					if ps.isOp(",") {
						ps.next()
						continue
					}
					break
				}
			}
			ps.expect(")")
			return ECall{t.s, args}
		}
		return EIdent{t.s}
	case "op":
		if t.s == "(" {
			e := ps.iff()
			ps.expect(")")
			return e
		}
		if t.s == "{" {
			var elems []Expr
			if !ps.isOp("}") {
				for {
					elems = append(elems, ps.iff())
					if ps.isOp(",") {
						ps.next()
						continue
					}
					break
				}
			}
			ps.expect("}")
			return ESet{elems}
		}
	}
	ps.fail("unexpected token " + t.s)
	return nil
}

func exprString(e Expr) string {
	switch x := e.(type) {
	case EIdent:
		return x.Name
	case EInt:
		return x.V
	case EStr:
		return fmt.Sprintf("%q", x.V)
	case EBool:
		return fmt.Sprint(x.V)
	case ENil:
		return "nil"
	case EField:
		return exprString(x.X) + "." + x.Name
	case EIndex:
		return exprString(x.X) + "[" + exprString(x.I) + "]"
	case ECall:
		var as []string
		for _, a := range x.Args {
			as = append(as, exprString(a))
		}
		return x.Fn + "(" + strings.Join(as, ", ") + ")"
	case EUn:
		return x.Op + exprString(x.X)
	case EBin:
		return "(" + exprString(x.L) + " " + x.Op + " " + exprString(x.R) + ")"
	case EQuant:
		q := "exists"
		if x.Forall {
			q = "forall"
		}
		return q + " " + x.Var + ": " + x.Sort + " :: " + exprString(x.Body)
	case ESet:
		var as []string
		for _, a := range x.Elems {
			as = append(as, exprString(a))
		}
		return "{" + strings.Join(as, ", ") + "}"
	}
	return "?"
}
