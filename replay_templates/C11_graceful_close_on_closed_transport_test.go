package ship

// Replay for property C11 (every connection end is reported exactly once), case "a local graceful close racing a
// transport that the peer has already closed": the websocket layer has marked the data connection closed, its report
// to the SHIP layer (ReportConnectionError) has not arrived yet, and the application asks for a graceful close
// (Hub.DisconnectSKI / UnregisterRemoteSKI -> CloseConnection(true, ...)) of the completed connection.
// The end of the connection must be reported to the hub exactly once and both calls must return.

import (
	"errors"
	"sync/atomic"
	"testing"
	"time"

	"github.com/enbility/ship-go/api"
	"github.com/enbility/ship-go/model"
)

type c11Env struct {
	closedReports atomic.Int32
	transportDown atomic.Bool
}

func (e *c11Env) IsRemoteServiceForSKIPaired(string) bool { return true }
func (e *c11Env) IsAutoAcceptEnabled() bool               { return false }
func (e *c11Env) AllowWaitingForTrust(string) bool        { return false }
func (e *c11Env) HandleConnectionClosed(api.ShipConnectionInterface, bool) {
	e.closedReports.Add(1)
}
func (e *c11Env) ReportServiceShipID(string, string)                     {}
func (e *c11Env) HandleShipHandshakeStateUpdate(string, model.ShipState) {}
func (e *c11Env) SetupRemoteDevice(string, api.ShipConnectionDataWriterInterface) api.ShipConnectionDataReaderInterface {
	return nil
}
func (e *c11Env) InitDataProcessing(api.WebsocketDataReaderInterface) {}
func (e *c11Env) WriteMessageToWebsocketConnection(m []byte) error {
	if e.transportDown.Load() {
		return errors.New("connection is closed")
	}
	return nil
}
func (e *c11Env) CloseDataConnection(int, string) { e.transportDown.Store(true) }
func (e *c11Env) IsDataConnectionClosed() (bool, error) {
	if e.transportDown.Load() {
		return true, errors.New("connection is closed")
	}
	return false, nil
}

func TestReplayC11GracefulCloseOnClosedTransport(t *testing.T) {
	env := &c11Env{}
	c := NewConnectionHandler(env, env, ShipRoleClient, "LOCAL", "remoteski", "REMOTE")
	c.smeState = model.SmeStateComplete

	// the peer has closed the transport; the websocket layer knows, its report is still on its way
	env.transportDown.Store(true)

	graceful := make(chan struct{})
	go func() {
		c.CloseConnection(true, 0, "user disconnect") // the application's graceful close
		close(graceful)
	}()
	time.Sleep(100 * time.Millisecond)
	reported := make(chan struct{})
	go func() {
		c.ReportConnectionError(errors.New("websocket: close 1006")) // the websocket layer's report arrives
		close(reported)
	}()

	timeout := time.After(3 * time.Second)
	for i, ch := range []chan struct{}{graceful, reported} {
		select {
		case <-ch:
		case <-timeout:
			t.Fatalf("REPRODUCED: call %d of 2 (0 = graceful CloseConnection, 1 = ReportConnectionError) never returned: the close re-entered its own sync.Once; HandleConnectionClosed calls so far: %d", i, env.closedReports.Load())
		}
	}
	time.Sleep(800 * time.Millisecond) // the graceful path reports after its 500 ms grace period
	if n := env.closedReports.Load(); n != 1 {
		t.Fatalf("REPRODUCED: the end of the connection was reported %d times, expected exactly once", n)
	}
}
