package mdns

// Replay for the address clause of property C17: the known entry of a service carries each usable address
// once - also when the very first add event reports the same address twice.

import (
	"net"
	"testing"
)

func TestReplayC17FirstAddDuplicates(t *testing.T) {
	m := NewMDNS("localski", "brand", "model", "type", "serial", nil, "id", "name", 4711, nil, MdnsProviderSelectionGoZeroConfOnly)
	elements := map[string]string{"txtvers": "1", "id": "remote", "path": "/ship/", "ski": "remoteski", "register": "false"}
	ip := net.ParseIP("10.0.0.1")
	m.processMdnsEntry(elements, "name", "host", []net.IP{ip, net.ParseIP("10.0.0.1"), ip.To4()}, 4712, false)
	e, ok := m.mdnsEntry("remoteski")
	if !ok {
		t.Skip("entry not stored")
	}
	seen := map[string]int{}
	for _, a := range e.Addresses {
		seen[a.String()]++
	}
	for k, n := range seen {
		if n > 1 {
			t.Fatalf("REPRODUCED: first add stored address %s %d times: %v", k, n, e.Addresses)
		}
	}
}
