package mdns

// Replay (go test -race) for the lock-discipline obligations on MdnsManager.report (property C20): Start starts the
// providers - whose resolver goroutines call processMdnsEntry, which reads the report callback - and only then
// stores the callback.

import (
	"net"
	"sync"
	"testing"

	"github.com/enbility/ship-go/api"
)

type replayReportCB struct{}

func (replayReportCB) ReportMdnsEntries(entries map[string]*api.MdnsEntry, newEntries bool) {}

func TestReplayC20MdnsReportRace(t *testing.T) {
	m := NewMDNS("localski", "brand", "model", "type", "serial", nil, "id", "name", 4711, nil, MdnsProviderSelectionGoZeroConfOnly)
	elements := map[string]string{"txtvers": "1", "id": "remote", "path": "/ship/", "ski": "remoteski", "register": "false"}
	var wg sync.WaitGroup
	wg.Add(2)
	go func() { // the application starts mDNS
		defer wg.Done()
		_ = m.Start(replayReportCB{})
	}()
	go func() { // a resolver goroutine delivers records meanwhile
		defer wg.Done()
		for i := 0; i < 2000; i++ {
			m.processMdnsEntry(elements, "name", "host", []net.IP{net.ParseIP("10.0.0.1")}, 4712, i%2 == 1)
		}
	}()
	wg.Wait()
	m.Shutdown()
}
