package cert

// Replay for obligation cert.SkiFromCertificate#post.K3-bound (property C02):
// SkiFromCertificate accepts a certificate whose Subject Key Identifier is NOT the SHA-1 of its own
// public key - here the 20 SKI bytes of a victim's certificate copied into a certificate with a fresh key.
// The test FAILS with "REPRODUCED" when the real code shows the violation.

import (
	"crypto/ecdsa"
	"crypto/elliptic"
	"crypto/rand"
	"crypto/sha1" // #nosec
	"crypto/x509"
	"crypto/x509/pkix"
	"fmt"
	"math/big"
	"testing"
	"time"
)

func TestReplayC02SkiBinding(t *testing.T) {
	victim, err := CreateCertificate("unit", "org", "DE", "victim")
	if err != nil {
		t.Skip("cannot create victim certificate:", err)
	}
	vleaf, err := x509.ParseCertificate(victim.Certificate[0])
	if err != nil {
		t.Skip(err)
	}
	priv, err := ecdsa.GenerateKey(elliptic.P256(), rand.Reader)
	if err != nil {
		t.Skip(err)
	}
	tpl := x509.Certificate{
		SignatureAlgorithm:    x509.ECDSAWithSHA256,
		SerialNumber:          big.NewInt(4711),
		Subject:               pkix.Name{CommonName: "attacker"},
		NotBefore:             time.Now(),
		NotAfter:              time.Now().Add(time.Hour),
		KeyUsage:              x509.KeyUsageDigitalSignature,
		BasicConstraintsValid: true,
		IsCA:                  true,
		SubjectKeyId:          vleaf.SubjectKeyId, // copied identity
	}
	der, err := x509.CreateCertificate(rand.Reader, &tpl, &tpl, &priv.PublicKey, priv)
	if err != nil {
		t.Skip(err)
	}
	leaf, err := x509.ParseCertificate(der)
	if err != nil {
		t.Skip(err)
	}
	got, gotErr := SkiFromCertificate(leaf)
	want, _ := SkiFromCertificate(vleaf)
	pub, _ := priv.PublicKey.ECDH()
	sum := sha1.Sum(pub.Bytes()) // #nosec
	own := fmt.Sprintf("%0x", sum)
	if gotErr == nil && got == want && got != own {
		t.Fatalf("REPRODUCED: certificate with a fresh key is attributed to the victim's SKI %s (SHA-1 of its own key is %s)", got, own)
	}
	t.Logf("not reproduced: err=%v ski=%s victim=%s own=%s", gotErr, got, want, own)
}
