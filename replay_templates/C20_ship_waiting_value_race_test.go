package ship

// Replay (go test -race) for the lock-discipline obligations on ShipConnection.lastReceivedWaitingValue
// (property C20): in SME_HELLO_STATE_PENDING_LISTEN the send-prolongation-request timer fires on its own
// goroutine (handshakeHello_PendingTimeout reads and writes the value) while the read pump handles the peer's
// hello update carrying a new waiting time (handshakeHello_PendingListen writes it).

import (
	"errors"
	"sync"
	"testing"

	"github.com/enbility/ship-go/api"
	"github.com/enbility/ship-go/model"
)

type wvEnv struct{ mu sync.Mutex }

func (e *wvEnv) IsRemoteServiceForSKIPaired(string) bool                              { return false }
func (e *wvEnv) IsAutoAcceptEnabled() bool                                            { return false }
func (e *wvEnv) AllowWaitingForTrust(string) bool                                     { return false }
func (e *wvEnv) HandleConnectionClosed(api.ShipConnectionInterface, bool)             {}
func (e *wvEnv) ReportServiceShipID(string, string)                                   {}
func (e *wvEnv) HandleShipHandshakeStateUpdate(string, model.ShipState)               {}
func (e *wvEnv) SetupRemoteDevice(string, api.ShipConnectionDataWriterInterface) api.ShipConnectionDataReaderInterface {
	return nil
}
func (e *wvEnv) InitDataProcessing(api.WebsocketDataReaderInterface)  {}
func (e *wvEnv) WriteMessageToWebsocketConnection(m []byte) error     { return nil }
func (e *wvEnv) CloseDataConnection(int, string)                      {}
func (e *wvEnv) IsDataConnectionClosed() (bool, error)                { return false, errors.New("open") }

func TestReplayC20WaitingValueRace(t *testing.T) {
	update := append([]byte{1}, []byte(`{"connectionHello":[{"phase":"pending"},{"waiting":60000}]}`)...)
	for round := 0; round < 200; round++ {
		env := &wvEnv{}
		c := NewConnectionHandler(env, env, ShipRoleServer, "LOCALID", "remoteski", "")
		c.setState(model.SmeHelloStatePendingListen, nil)
		c.setHandshakeTimer(timeoutTimerTypeSendProlongationRequest, tHelloInit)
		var wg sync.WaitGroup
		wg.Add(2)
		go func() { // the timer goroutine: the prolongation-request timer fires
			defer wg.Done()
			c.setHandshakeTimerRunning(false)
			c.handleState(true, nil)
		}()
		go func() { // the read pump: the peer's hello update arrives
			defer wg.Done()
			c.HandleIncomingWebsocketMessage(update)
		}()
		wg.Wait()
		c.stopHandshakeTimer()
		c.CloseConnection(false, 0, "")
	}
}
