package hub

// Replay driver for obligations of the hub's pairing / registry operations (package hub).
// Like replay_templates/ship_search_test.go it searches a bounded scenario space on the REAL code for a run
// that violates the oracle belonging to a failed obligation and prints "REPRODUCED" with the scenario.
//
// oracles:  format  - C15: an operation applied with a re-spelled SKI has exactly the effect of the canonical one
//                     (two identically prepared hubs, differential comparison of all observable effects)
//           unpair  - C10-D2/D3: after unregister / cancel the SKI is untrusted, state None, counter gone,
//                     the registered connection closed resp. its handshake aborted
//           forget  - C11-F2: a reported connection end removes exactly that connection's registry entry
//           trust   - C01-G5: a handshake state update grants trust only on HELLO_OK and only to that SKI

import (
	"crypto/tls"
	"encoding/json"
	"fmt"
	"os"
	"sort"
	"strings"
	"sync"
	"testing"
	"time"

	"github.com/enbility/ship-go/api"
	"github.com/enbility/ship-go/model"
)

type hsReader struct {
	mu    sync.Mutex
	calls []string
}

func (r *hsReader) log(s string) { r.mu.Lock(); r.calls = append(r.calls, s); r.mu.Unlock() }
func (r *hsReader) RemoteSKIConnected(ski string)     { r.log("connected " + ski) }
func (r *hsReader) RemoteSKIDisconnected(ski string)  { r.log("disconnected " + ski) }
func (r *hsReader) SetupRemoteDevice(ski string, _ api.ShipConnectionDataWriterInterface) api.ShipConnectionDataReaderInterface {
	r.log("setup " + ski)
	return nil
}
func (r *hsReader) VisibleRemoteServicesUpdated([]api.RemoteService) {}
func (r *hsReader) ServiceShipIDUpdate(ski, id string)                { r.log("shipid " + ski + " " + id) }
func (r *hsReader) ServicePairingDetailUpdate(ski string, d *api.ConnectionStateDetail) {
	r.log(fmt.Sprintf("pairing %s %d", ski, d.State()))
}
func (r *hsReader) AllowWaitingForTrust(string) bool { return true }

type hsMdns struct{}

func (hsMdns) Start(api.MdnsReportInterface) error { return nil }
func (hsMdns) Shutdown()                           {}
func (hsMdns) AnnounceMdnsEntry() error            { return nil }
func (hsMdns) UnannounceMdnsEntry()                {}
func (hsMdns) SetAutoAccept(bool)                  {}
func (hsMdns) QRCodeText() string                  { return "" }
func (hsMdns) RequestMdnsEntries()                 {}

type hsWriter struct{ id int }

func (hsWriter) InitDataProcessing(api.WebsocketDataReaderInterface) {}
func (hsWriter) WriteMessageToWebsocketConnection([]byte) error     { return nil }
func (hsWriter) CloseDataConnection(int, string)                    {}
func (hsWriter) IsDataConnectionClosed() (bool, error)              { return false, nil }

type hsConn struct {
	mu     sync.Mutex
	ski    string
	state  model.ShipMessageExchangeState
	writer *hsWriter
	calls  []string
}

func (c *hsConn) log(s string) { c.mu.Lock(); c.calls = append(c.calls, s); c.mu.Unlock() }
func (c *hsConn) DataHandler() api.WebsocketDataWriterInterface { return c.writer }
func (c *hsConn) CloseConnection(safe bool, code int, reason string) {
	c.log(fmt.Sprintf("close %v %d %s", safe, code, reason))
}
func (c *hsConn) RemoteSKI() string          { return c.ski }
func (c *hsConn) ApprovePendingHandshake()   { c.log("approve") }
func (c *hsConn) AbortPendingHandshake()     { c.log("abort") }
func (c *hsConn) ShipHandshakeState() (model.ShipMessageExchangeState, error) {
	return c.state, nil
}

const hsSKI = "abcdef0123456789abcdef0123456789abcdef01"
const hsOther = "1111111111111111111111111111111111111111"

var hsSpellings = map[string]string{
	"canonical": hsSKI,
	"upper":     strings.ToUpper(hsSKI),
	"dashed":    "abcdef01-23456789-abcdef01-23456789-abcdef01",
	"spaced":    "ABCD EF01 2345 6789 abcd ef01 2345 6789 ABCD EF01",
}

type hsWorld struct {
	hub    *Hub
	reader *hsReader
	conn   *hsConn
	other  *hsConn
}

// hsPrepare builds a hub in one of the start situations.
func hsPrepare(situation string, started bool) *hsWorld {
	w := &hsWorld{reader: &hsReader{}}
	local := api.NewServiceDetails("0000000000000000000000000000000000000000")
	w.hub = NewHub(w.reader, hsMdns{}, 4711, tls.Certificate{}, local)
	w.hub.hasStarted = started
	w.other = &hsConn{ski: hsOther, state: model.SmeStateComplete, writer: &hsWriter{id: 9}}
	w.hub.ServiceForSKI(hsOther).SetTrusted(true)
	w.hub.registerConnection(w.other)
	w.hub.connectionAttemptCounter[hsOther] = 1
	switch situation {
	case "unknown":
	case "registered":
		s := w.hub.ServiceForSKI(hsSKI)
		s.SetTrusted(true)
		s.SetShipID("SHIPID")
		w.hub.connectionAttemptCounter[hsSKI] = 2
	case "pending":
		w.hub.ServiceForSKI(hsSKI)
		w.conn = &hsConn{ski: hsSKI, state: model.SmeHelloStatePendingListen, writer: &hsWriter{id: 1}}
		w.hub.registerConnection(w.conn)
		w.hub.connectionAttemptCounter[hsSKI] = 1
	case "completed":
		s := w.hub.ServiceForSKI(hsSKI)
		s.SetTrusted(true)
		w.conn = &hsConn{ski: hsSKI, state: model.SmeStateComplete, writer: &hsWriter{id: 1}}
		w.hub.registerConnection(w.conn)
		w.hub.connectionAttemptCounter[hsSKI] = 0
	}
	w.reader.calls = nil
	return w
}

// hsObserve renders every observable effect of the world.
func hsObserve(w *hsWorld, result string) string {
	time.Sleep(0)
	var b strings.Builder
	b.WriteString("result=" + result + ";")
	var keys []string
	for k := range w.hub.remoteServices {
		keys = append(keys, k)
	}
	sort.Strings(keys)
	for _, k := range keys {
		s := w.hub.remoteServices[k]
		fmt.Fprintf(&b, "svc[%s]={ski:%s trusted:%v state:%d shipid:%s};", k, s.SKI(), s.Trusted(), s.ConnectionStateDetail().State(), s.ShipID())
	}
	keys = nil
	for k := range w.hub.connections {
		keys = append(keys, k)
	}
	sort.Strings(keys)
	fmt.Fprintf(&b, "conns=%v;", keys)
	keys = nil
	for k, v := range w.hub.connectionAttemptCounter {
		keys = append(keys, fmt.Sprintf("%s:%d", k, v))
	}
	sort.Strings(keys)
	fmt.Fprintf(&b, "counters=%v;", keys)
	if w.conn != nil {
		fmt.Fprintf(&b, "conn=%v;", w.conn.calls)
	}
	fmt.Fprintf(&b, "other=%v;", w.other.calls)
	w.reader.mu.Lock()
	fmt.Fprintf(&b, "callbacks=%v", w.reader.calls)
	w.reader.mu.Unlock()
	return b.String()
}

func hsApply(w *hsWorld, op, ski string) string {
	switch op {
	case "ServiceForSKI":
		s := w.hub.ServiceForSKI(ski)
		return fmt.Sprintf("entry-of-registry:%v ski:%s", w.hub.remoteServices[s.SKI()] == s, s.SKI())
	case "RegisterRemoteSKI":
		w.hub.RegisterRemoteSKI(ski)
	case "UnregisterRemoteSKI":
		w.hub.UnregisterRemoteSKI(ski)
	case "DisconnectSKI":
		w.hub.DisconnectSKI(ski, "reason")
	case "CancelPairingWithSKI":
		w.hub.CancelPairingWithSKI(ski)
	case "PairingDetailForSki":
		d := w.hub.PairingDetailForSki(ski)
		return fmt.Sprintf("state:%d", d.State())
	case "IsRemoteServiceForSKIPaired":
		return fmt.Sprint(w.hub.IsRemoteServiceForSKIPaired(ski))
	}
	return ""
}

func TestReplayHubSearch(t *testing.T) {
	var req struct {
		Oracle string `json:"oracle"`
	}
	data, err := os.ReadFile(os.Getenv("REPLAY_REQUEST"))
	if err != nil {
		t.Skip("no replay request")
	}
	json.Unmarshal(data, &req)
	report := func(sc map[string]interface{}) {
		b, _ := json.Marshal(sc)
		if out := os.Getenv("REPLAY_OUT"); out != "" {
			os.WriteFile(out, b, 0o644)
		}
		t.Fatalf("REPRODUCED: %s", b)
	}
	situations := []string{"unknown", "registered", "pending", "completed"}
	runs := 0
	switch req.Oracle {
	case "format":
		ops := []string{"ServiceForSKI", "RegisterRemoteSKI", "UnregisterRemoteSKI", "DisconnectSKI", "CancelPairingWithSKI", "PairingDetailForSki", "IsRemoteServiceForSKIPaired"}
		for _, sit := range situations {
			for _, started := range []bool{true, false} {
				for _, op := range ops {
					a := hsPrepare(sit, started)
					want := hsObserve(a, hsApply(a, op, hsSKI))
					for name, sp := range hsSpellings {
						runs++
						b := hsPrepare(sit, started)
						got := hsObserve(b, hsApply(b, op, sp))
						if got != want {
							report(map[string]interface{}{"oracle": "format", "situation": sit, "hub_started": started, "operation": op, "spelling": name, "ski_used": sp,
								"effect_with_canonical_ski": want, "effect_with_respelled_ski": got})
						}
					}
				}
			}
		}
	case "unpair":
		for _, sit := range situations {
			for _, op := range []string{"UnregisterRemoteSKI", "CancelPairingWithSKI"} {
				for name, sp := range hsSpellings {
					runs++
					w := hsPrepare(sit, true)
					hsApply(w, op, sp)
					s := w.hub.remoteServices[hsSKI]
					bad := ""
					switch {
					case s == nil:
						bad = "service entry missing"
					case s.Trusted():
						bad = "still trusted"
					case s.ConnectionStateDetail().State() != api.ConnectionStateNone:
						bad = fmt.Sprintf("pairing state %d, want None", s.ConnectionStateDetail().State())
					}
					if _, ok := w.hub.connectionAttemptCounter[hsSKI]; ok && bad == "" {
						bad = "attempt counter still present"
					}
					if w.conn != nil && bad == "" {
						want := "close true 4500 User close"
						if op == "CancelPairingWithSKI" {
							want = "abort"
						}
						if len(w.conn.calls) != 1 || w.conn.calls[0] != want {
							bad = fmt.Sprintf("calls on the registered connection %v, want [%s]", w.conn.calls, want)
						}
					}
					if bad != "" {
						report(map[string]interface{}{"oracle": "unpair", "situation": sit, "operation": op, "spelling": name, "ski_used": sp, "observed": bad + "; " + hsObserve(w, "")})
					}
				}
			}
		}
	case "forget":
		for _, completed := range []bool{true, false} {
			runs++
			w := hsPrepare("completed", true)
			old := w.conn
			newer := &hsConn{ski: hsSKI, state: model.SmeStateComplete, writer: &hsWriter{id: 2}}
			w.hub.registerConnection(newer) // double connection: the newer one replaced the registry entry
			w.hub.HandleConnectionClosed(old, completed)
			if w.hub.connections[hsSKI] != api.ShipConnectionInterface(newer) {
				report(map[string]interface{}{"oracle": "forget", "scenario": "old double connection closes after the new one was registered", "observed": "the newer connection's registry entry was dropped; " + hsObserve(w, "")})
			}
			w.hub.HandleConnectionClosed(newer, completed)
			if _, ok := w.hub.connections[hsSKI]; ok {
				report(map[string]interface{}{"oracle": "forget", "scenario": "registered connection closes", "observed": "registry entry kept; " + hsObserve(w, "")})
			}
			if _, ok := w.hub.connections[hsOther]; !ok {
				report(map[string]interface{}{"oracle": "forget", "scenario": "registered connection closes", "observed": "another SKI's entry was dropped; " + hsObserve(w, "")})
			}
			if _, ok := w.hub.connectionAttemptCounter[hsSKI]; ok && completed {
				report(map[string]interface{}{"oracle": "forget", "scenario": "completed connection closes", "observed": "attempt counter kept; " + hsObserve(w, "")})
			}
			n := 0
			for _, c := range w.reader.calls {
				if c == "disconnected "+hsSKI {
					n++
				}
			}
			if n != 2 {
				report(map[string]interface{}{"oracle": "forget", "scenario": "two reported ends", "observed": fmt.Sprintf("%d disconnect notifications for the SKI; %s", n, hsObserve(w, ""))})
			}
		}
	case "trust":
		for st := model.ShipMessageExchangeState(0); st <= 39; st++ {
			for _, sit := range situations {
				runs++
				w := hsPrepare(sit, true)
				before := w.hub.remoteServices[hsSKI] != nil && w.hub.remoteServices[hsSKI].Trusted()
				otherBefore := w.hub.remoteServices[hsOther].Trusted()
				w.hub.HandleShipHandshakeStateUpdate(hsSKI, model.ShipState{State: st})
				after := w.hub.remoteServices[hsSKI] != nil && w.hub.remoteServices[hsSKI].Trusted()
				if after != (before || st == model.SmeHelloStateOk) || w.hub.remoteServices[hsOther].Trusted() != otherBefore {
					report(map[string]interface{}{"oracle": "trust", "situation": sit, "reported_state": st, "observed": fmt.Sprintf("trusted before=%v after=%v; %s", before, after, hsObserve(w, ""))})
				}
			}
		}
	default:
		t.Skip("unknown oracle")
	}
	t.Logf("no failing run among %d scenarios", runs)
}
