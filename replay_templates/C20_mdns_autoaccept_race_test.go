package mdns

// Replay (go test -race) for the lock-discipline obligations on MdnsManager.autoaccept and MdnsManager.mdnsProvider
// (property C20): Hub.SetAutoAccept (application goroutine) ends in MdnsManager.SetAutoAccept, which writes the
// flag, while a closing connection's goroutine runs Hub.checkAutoReannounce -> MdnsManager.AnnounceMdnsEntry, which
// reads it to build the TXT record; Hub.Shutdown -> MdnsManager.Shutdown clears the provider that the same
// AnnounceMdnsEntry reads (and then calls).

import (
	"sync"
	"testing"

	"github.com/enbility/ship-go/api"
)

type replayProvider struct{}

func (replayProvider) Start(autoReconnect bool, cb api.MdnsResolveCB) bool      { return true }
func (replayProvider) Shutdown()                                              {}
func (replayProvider) Announce(serviceName string, port int, txt []string) error { return nil }
func (replayProvider) Unannounce()                                            {}

func TestReplayC20MdnsAutoAcceptRace(t *testing.T) {
	m := NewMDNS("localski", "brand", "model", "type", "serial", nil, "id", "name", 4711, nil, MdnsProviderSelectionGoZeroConfOnly)
	m.mdnsProvider = replayProvider{}
	var wg sync.WaitGroup
	wg.Add(2)
	go func() { // the application toggles auto-accept (Hub.SetAutoAccept)
		defer wg.Done()
		for i := 0; i < 500; i++ {
			m.SetAutoAccept(i%2 == 0)
		}
	}()
	go func() { // a closing connection re-announces (Hub.checkAutoReannounce)
		defer wg.Done()
		for i := 0; i < 500; i++ {
			_ = m.AnnounceMdnsEntry()
		}
	}()
	wg.Wait()
}

func TestReplayC20MdnsProviderRace(t *testing.T) {
	for round := 0; round < 50; round++ {
		m := NewMDNS("localski", "brand", "model", "type", "serial", nil, "id", "name", 4711, nil, MdnsProviderSelectionGoZeroConfOnly)
		m.mdnsProvider = replayProvider{}
		var wg sync.WaitGroup
		wg.Add(2)
		go func() { // the application shuts the hub down (Hub.Shutdown -> MdnsManager.Shutdown)
			defer wg.Done()
			m.Shutdown()
		}()
		go func() { // a closing connection re-announces at the same time
			defer wg.Done()
			for i := 0; i < 20; i++ {
				_ = m.AnnounceMdnsEntry()
			}
		}()
		wg.Wait()
	}
}
