package hub

import (
	"fmt"
	"sync"
	"testing"
	"time"

	"github.com/enbility/ship-go/api"
	"github.com/enbility/ship-go/model"
)

type c18Reader struct {
	mu   sync.Mutex
	last map[string]api.ConnectionState
	n    map[string]int
}

func (r *c18Reader) RemoteSKIConnected(string)                                 {}
func (r *c18Reader) RemoteSKIDisconnected(string)                              {}
func (r *c18Reader) SetupRemoteDevice(string, api.ShipConnectionDataWriterInterface) api.ShipConnectionDataReaderInterface {
	return nil
}
func (r *c18Reader) VisibleRemoteServicesUpdated([]api.RemoteService) {}
func (r *c18Reader) ServiceShipIDUpdate(string, string)               {}
func (r *c18Reader) ServicePairingDetailUpdate(ski string, d *api.ConnectionStateDetail) {
	r.mu.Lock()
	r.last[ski] = d.State()
	r.n[ski]++
	r.mu.Unlock()
}
func (r *c18Reader) AllowWaitingForTrust(string) bool { return false }

func TestReplayC18StaleUpdate(t *testing.T) {
	r := &c18Reader{last: map[string]api.ConnectionState{}, n: map[string]int{}}
	h := &Hub{
		connections:              map[string]api.ShipConnectionInterface{},
		connectionAttemptCounter: map[string]int{},
		connectionAttemptRunning: map[string]bool{},
		remoteServices:           map[string]*api.ServiceDetails{},
		hubReader:                r,
	}
	const n = 3000
	var wg sync.WaitGroup
	for w := 0; w < 8; w++ {
		wg.Add(1)
		go func(w int) {
			defer wg.Done()
			for i := 0; i < n/8; i++ {
				ski := fmt.Sprintf("%040x", w*100000+i)
				h.HandleShipHandshakeStateUpdate(ski, model.ShipState{State: model.SmeHelloStateOk})
				h.HandleShipHandshakeStateUpdate(ski, model.ShipState{State: model.SmeProtHStateServerInit})
			}
		}(w)
	}
	wg.Wait()
	time.Sleep(1500 * time.Millisecond)
	bad := 0
	r.mu.Lock()
	for ski, st := range r.last {
		if st != h.PairingDetailForSki(ski).State() {
			bad++
		}
	}
	r.mu.Unlock()
	t.Logf("inversions: %d of %d", bad, len(r.last))
	if bad > 0 {
		t.Fatalf("REPRODUCED: for %d of %d SKIs the last pairing-state notification shows an older state than PairingDetailForSki", bad, len(r.last))
	}
}
