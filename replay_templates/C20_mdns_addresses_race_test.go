package mdns

// Replay (go test -race) for the lock-discipline obligations on api.MdnsEntry.Addresses in
// (*MdnsManager).processMdnsEntry (property C20): the address list of a known entry is read and
// appended to outside MdnsManager.mux while copyMdnsEntries deep-copies the same entry under the lock.

import (
	"fmt"
	"net"
	"sync"
	"testing"

	"github.com/enbility/ship-go/api"
)

type replayReport struct{}

func (replayReport) ReportMdnsEntries(entries map[string]*api.MdnsEntry, newEntries bool) {}

func TestReplayC20MdnsAddressesRace(t *testing.T) {
	m := NewMDNS("localski", "brand", "model", "type", "serial", nil, "id", "name", 4711, nil, MdnsProviderSelectionGoZeroConfOnly)
	m.report = replayReport{}
	elements := map[string]string{"txtvers": "1", "id": "remote", "path": "/ship/", "ski": "remoteski", "register": "false"}
	m.processMdnsEntry(elements, "name", "host", []net.IP{net.ParseIP("10.0.0.1")}, 4712, false)
	var wg sync.WaitGroup
	wg.Add(2)
	go func() {
		defer wg.Done()
		for i := 2; i < 200; i++ {
			m.processMdnsEntry(elements, "name", "host", []net.IP{net.ParseIP(fmt.Sprintf("10.0.%d.%d", i/250, i%250))}, 4712, false)
		}
	}()
	go func() {
		defer wg.Done()
		for i := 0; i < 200; i++ {
			_ = m.copyMdnsEntries()
		}
	}()
	wg.Wait()
	// the race detector fails the test ("DATA RACE") when the unsynchronised access is real
}
