package hub

// Replay for property C11, case "the connection ends before the hub has registered it": the hub constructs the
// websocket/SHIP connection (its pumps start at once), runs the first handshake step and only then puts the
// connection into its registry. A peer that closes right after the websocket upgrade can have the end of the
// connection reported (HandleConnectionClosed finds nothing to forget) BEFORE the registration - the registry then
// holds a dead connection for good: isSkiConnected stays true and the SKI is never dialled again.

import (
	"crypto/tls"
	"crypto/x509"
	"net"
	"net/http"
	"net/http/httptest"
	"testing"
	"time"

	"github.com/enbility/ship-go/api"
	"github.com/enbility/ship-go/cert"
	"github.com/gorilla/websocket"
)

type c11bReader struct{}

func (r *c11bReader) RemoteSKIConnected(string)    {}
func (r *c11bReader) RemoteSKIDisconnected(string) {}
func (r *c11bReader) SetupRemoteDevice(string, api.ShipConnectionDataWriterInterface) api.ShipConnectionDataReaderInterface {
	return nil
}
func (r *c11bReader) VisibleRemoteServicesUpdated([]api.RemoteService)               {}
func (r *c11bReader) ServiceShipIDUpdate(string, string)                              {}
func (r *c11bReader) ServicePairingDetailUpdate(string, *api.ConnectionStateDetail) {}
func (r *c11bReader) AllowWaitingForTrust(string) bool                                { return false }

type c11bMdns struct{}

func (m *c11bMdns) Start(api.MdnsReportInterface) error { return nil }
func (m *c11bMdns) Shutdown()                           {}
func (m *c11bMdns) AnnounceMdnsEntry() error            { return nil }
func (m *c11bMdns) UnannounceMdnsEntry()                {}
func (m *c11bMdns) SetAutoAccept(bool)                  {}
func (m *c11bMdns) RequestMdnsEntries()                 {}
func (m *c11bMdns) QRCodeText() string                  { return "" }

func TestReplayC11EndBeforeRegistration(t *testing.T) {
	localCert, err := cert.CreateCertificate("unit", "org", "DE", "local")
	if err != nil {
		t.Fatal(err)
	}
	peerCert, err := cert.CreateCertificate("unit", "org", "DE", "peer")
	if err != nil {
		t.Fatal(err)
	}
	peerSki, err := c11bSki(peerCert)
	if err != nil {
		t.Fatal(err)
	}
	// a peer that upgrades and closes at once
	upgrader := websocket.Upgrader{Subprotocols: []string{api.ShipWebsocketSubProtocol}, CheckOrigin: func(*http.Request) bool { return true }}
	srv := httptest.NewUnstartedServer(http.HandlerFunc(func(w http.ResponseWriter, r *http.Request) {
		c, err := upgrader.Upgrade(w, r, nil)
		if err != nil {
			return
		}
		_ = c.UnderlyingConn().Close() // abrupt end right after the upgrade
	}))
	srv.TLS = &tls.Config{Certificates: []tls.Certificate{peerCert}, ClientAuth: tls.RequireAnyClientCert, CipherSuites: cert.CipherSuites, MinVersion: tls.VersionTLS12}
	srv.StartTLS()
	defer srv.Close()
	host, port, _ := net.SplitHostPort(srv.Listener.Addr().String())

	zombies := 0
	const rounds = 150
	for i := 0; i < rounds; i++ {
		h := NewHub(&c11bReader{}, &c11bMdns{}, 4711, localCert, api.NewServiceDetails("aa"))
		service := h.ServiceForSKI(peerSki)
		service.SetTrusted(true)
		_ = h.connectFoundService(service, host, port, "/ship/")
		// the peer is gone; once things have settled the hub must not consider the SKI connected any more
		deadline := time.Now().Add(1500 * time.Millisecond)
		for h.isSkiConnected(peerSki) && time.Now().Before(deadline) {
			time.Sleep(10 * time.Millisecond)
		}
		if h.isSkiConnected(peerSki) {
			zombies++
		}
	}
	if zombies > 0 {
		t.Fatalf("REPRODUCED: in %d of %d rounds the hub still lists a connection to a peer that closed right after the websocket upgrade: its end was reported before the hub registered it, so nothing ever removes it", zombies, rounds)
	}
}

func c11bSki(c tls.Certificate) (string, error) {
	leaf, err := tlsLeaf(c)
	if err != nil {
		return "", err
	}
	return cert.SkiFromCertificate(leaf)
}

func tlsLeaf(c tls.Certificate) (*x509.Certificate, error) { return x509.ParseCertificate(c.Certificate[0]) }
