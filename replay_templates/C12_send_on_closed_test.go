package ws

// Replay for the channel-close protocol obligation of property C12: a writer blocked in
// WriteMessageToWebsocketConnection on a full queue while the connection is closed. On a tree where the
// write pump closes shipWriteChannel on exit, the blocked sender panics with "send on closed channel"
// whenever the pump's select takes the close channel first (random choice, hence the loop).

import (
	"net/http"
	"net/http/httptest"
	"strings"
	"testing"
	"time"

	"github.com/gorilla/websocket"
)

type replayC12Reader struct{}

func (replayC12Reader) HandleIncomingWebsocketMessage([]byte) {}
func (replayC12Reader) ReportConnectionError(error)           {}

func replayC12Once(t *testing.T) (panicked bool, hung bool) {
	srv := httptest.NewServer(http.HandlerFunc(func(rw http.ResponseWriter, r *http.Request) {
		up := websocket.Upgrader{}
		c, err := up.Upgrade(rw, r, nil)
		if err != nil {
			return
		}
		defer c.Close()
		for {
			if _, _, err := c.ReadMessage(); err != nil {
				return
			}
		}
	}))
	defer srv.Close()
	conn, _, err := websocket.DefaultDialer.Dial("ws"+strings.TrimPrefix(srv.URL, "http"), nil)
	if err != nil {
		t.Skip("cannot dial local test server:", err)
	}
	w := NewWebsocketConnection(conn, "ski")
	w.dataProcessing = replayC12Reader{}
	// what run() does, without starting the pumps yet
	w.shipWriteChannel = make(chan []byte, 1)
	w.closeChannel = make(chan struct{}, 1)
	if err := w.WriteMessageToWebsocketConnection([]byte{1, 2}); err != nil { // fills the one-slot queue
		t.Skip(err)
	}
	res := make(chan bool, 1)
	go func() {
		defer func() { res <- recover() != nil }()
		_ = w.WriteMessageToWebsocketConnection([]byte{3, 4}) // blocks in the send
	}()
	time.Sleep(20 * time.Millisecond)
	w.close()
	go w.writeShipPump()
	select {
	case p := <-res:
		return p, false
	case <-time.After(2 * time.Second):
		return false, true
	}
}

func TestReplayC12SendOnClosed(t *testing.T) {
	for i := 0; i < 64; i++ {
		p, h := replayC12Once(t)
		if p {
			t.Fatalf("REPRODUCED: writer blocked on a full queue panicked with send on closed channel when the connection closed (attempt %d)", i+1)
		}
		if h {
			t.Fatalf("REPRODUCED: writer blocked on a full queue was never released after the connection closed (attempt %d)", i+1)
		}
	}
}
