package ship

// Replay driver for obligations of the SHIP handshake handlers (package ship).
//
// A failed obligation names a function, a clause family (the "oracle") and - through the contract's
// precondition - the handshake state. This driver searches, on the REAL code, the bounded scenario space
//   role x start state x entry (message / timeout / approve / abort / transport error / close)
//        x message pool x {which transport write fails} x {transport already closed} x {trust configuration}
// for a run whose observable behaviour violates the oracle, and prints "REPRODUCED" with the scenario.
// It is a counterexample-guided search, not a proof; it is only used to attach a concrete failing run
// to an obligation the verifier could not discharge.

import (
	"encoding/json"
	"errors"
	"fmt"
	"os"
	"strconv"
	"strings"
	"sync"
	"testing"
	"time"

	"github.com/enbility/ship-go/api"
	"github.com/enbility/ship-go/model"
)

type rpEnv struct {
	mu          sync.Mutex
	paired      bool
	auto        bool
	allowWait   bool
	failWrite   int // 1-based index of the write that fails, 0 = none
	closed      bool
	writes      int
	sent        [][]byte
	reports     []model.ShipMessageExchangeState
	closedCalls int
	connClosed  int // HandleConnectionClosed calls
	setups      int
	idReports   []string
	delivered   []string
	events      []string
	reader      *rpReader
}

type rpReader struct{ env *rpEnv }

func (r *rpReader) HandleShipPayloadMessage(m []byte) {
	r.env.mu.Lock()
	defer r.env.mu.Unlock()
	r.env.delivered = append(r.env.delivered, string(m))
	r.env.events = append(r.env.events, "deliver")
}

func (e *rpEnv) IsRemoteServiceForSKIPaired(string) bool { return e.paired }
func (e *rpEnv) IsAutoAcceptEnabled() bool                { return e.auto }
func (e *rpEnv) AllowWaitingForTrust(string) bool         { return e.allowWait }
func (e *rpEnv) HandleConnectionClosed(api.ShipConnectionInterface, bool) {
	e.mu.Lock()
	defer e.mu.Unlock()
	e.connClosed++
	e.events = append(e.events, "connclosed")
}
func (e *rpEnv) ReportServiceShipID(_ string, id string) {
	e.mu.Lock()
	defer e.mu.Unlock()
	e.idReports = append(e.idReports, id)
	e.events = append(e.events, "idreport")
}
func (e *rpEnv) HandleShipHandshakeStateUpdate(_ string, st model.ShipState) {
	e.mu.Lock()
	defer e.mu.Unlock()
	e.reports = append(e.reports, st.State)
}
func (e *rpEnv) SetupRemoteDevice(string, api.ShipConnectionDataWriterInterface) api.ShipConnectionDataReaderInterface {
	e.mu.Lock()
	defer e.mu.Unlock()
	e.setups++
	e.events = append(e.events, "setup")
	return e.reader
}
func (e *rpEnv) InitDataProcessing(api.WebsocketDataReaderInterface) {}
func (e *rpEnv) WriteMessageToWebsocketConnection(m []byte) error {
	e.mu.Lock()
	defer e.mu.Unlock()
	e.writes++
	if e.closed || e.writes == e.failWrite {
		return errors.New("replay: write failed")
	}
	e.sent = append(e.sent, m)
	return nil
}
func (e *rpEnv) CloseDataConnection(int, string) {
	e.mu.Lock()
	defer e.mu.Unlock()
	e.closedCalls++
	e.closed = true
}
func (e *rpEnv) IsDataConnectionClosed() (bool, error) {
	e.mu.Lock()
	defer e.mu.Unlock()
	if e.closed {
		return true, errors.New("replay: closed")
	}
	return false, nil
}

func rpMsg(typ byte, js string) []byte { return append([]byte{typ}, []byte(js)...) }

var rpPool = map[string][]byte{
	"nil":              nil,
	"empty":            {},
	"init-ok":          {0, 0},
	"init-bad-value":   {0, 1},
	"init-bad-type":    {1, 0},
	"hello-ready":      rpMsg(1, `{"connectionHello":[{"phase":"ready"},{"waiting":60000}]}`),
	"hello-ready-now":  rpMsg(1, `{"connectionHello":[{"phase":"ready"}]}`),
	"hello-ready-5s":   rpMsg(1, `{"connectionHello":[{"phase":"ready"},{"waiting":5000}]}`),
	"hello-ready-0":    rpMsg(1, `{"connectionHello":[{"phase":"ready"},{"waiting":0}]}`),
	"hello-pending":    rpMsg(1, `{"connectionHello":[{"phase":"pending"},{"waiting":60000}]}`),
	"hello-pending-0":  rpMsg(1, `{"connectionHello":[{"phase":"pending"},{"waiting":10}]}`),
	"hello-bare":       rpMsg(1, `{"connectionHello":[{"phase":"pending"}]}`),
	"hello-prolong":    rpMsg(1, `{"connectionHello":[{"phase":"pending"},{"prolongationRequest":true}]}`),
	"hello-prolong-f":  rpMsg(1, `{"connectionHello":[{"phase":"pending"},{"prolongationRequest":false}]}`),
	"hello-aborted":    rpMsg(1, `{"connectionHello":[{"phase":"aborted"}]}`),
	"hello-unknown":    rpMsg(1, `{"connectionHello":[{"phase":"whatever"}]}`),
	"garbage":          rpMsg(1, `{"x":`),
	"prot-announce":    rpMsg(1, `{"messageProtocolHandshake":[{"handshakeType":"announceMax"},{"version":[{"major":1},{"minor":0}]},{"formats":[{"format":["JSON-UTF8"]}]}]}`),
	"prot-select":      rpMsg(1, `{"messageProtocolHandshake":[{"handshakeType":"select"},{"version":[{"major":1},{"minor":0}]},{"formats":[{"format":["JSON-UTF8"]}]}]}`),
	"prot-select-v2":   rpMsg(1, `{"messageProtocolHandshake":[{"handshakeType":"select"},{"version":[{"major":2},{"minor":0}]},{"formats":[{"format":["JSON-UTF8"]}]}]}`),
	"prot-empty-fmt":   rpMsg(1, `{"messageProtocolHandshake":[{"handshakeType":"select"},{"version":[{"major":1},{"minor":0}]},{"formats":[{"format":[ ]}]}]}`),
	"prot-no-fmt":      rpMsg(1, `{"messageProtocolHandshake":[{"handshakeType":"select"},{"version":[{"major":1},{"minor":0}]},{"formats":[]}]}`),
	"pin-none":         rpMsg(1, `{"connectionPinState":[{"pinState":"none"}]}`),
	"pin-required":     rpMsg(1, `{"connectionPinState":[{"pinState":"required"}]}`),
	"access-request":   rpMsg(1, `{"accessMethodsRequest":[]}`),
	"access-id-stored": rpMsg(1, `{"accessMethods":[{"id":"STORED"}]}`),
	"access-id-other":  rpMsg(1, `{"accessMethods":[{"id":"OTHER"}]}`),
	"access-id-empty":  rpMsg(1, `{"accessMethods":[{"id":""}]}`),
	"access-no-id":     rpMsg(1, `{"accessMethods":[]}`),
	"close-announce":   rpMsg(3, `{"connectionClose":[{"phase":"announce"}]}`),
	"close-confirm":    rpMsg(3, `{"connectionClose":[{"phase":"confirm"}]}`),
	"data-1":           rpMsg(2, `{"data":[{"header":[{"protocolId":"ee1.0"}]},{"payload":{"datagram":[{"n":1}]}}]}`),
	"data-2":           rpMsg(2, `{"data":[{"header":[{"protocolId":"ee1.0"}]},{"payload":{"datagram":[{"n":2}]}}]}`),
}

type rpScenario struct {
	Role      string `json:"role"`
	State     uint   `json:"state"`
	Entry     string `json:"entry"`
	Message   string `json:"message"`
	FailWrite int    `json:"fail_write"`
	Closed    bool   `json:"transport_closed"`
	Paired    bool   `json:"paired"`
	Auto      bool   `json:"auto_accept"`
	Allow     bool   `json:"allow_waiting"`
	StoredID  string `json:"stored_ship_id"`
	Buffered  int    `json:"buffered_payloads"`
	Observed  string `json:"observed"`
}

func rpTerminal(s model.ShipMessageExchangeState) bool {
	switch s {
	case model.SmeStateError, model.SmeHelloStateAbort, model.SmeHelloStateAbortDone, model.SmeHelloStateRemoteAbortDone, model.SmeHelloStateRejected:
		return true
	}
	return false
}

func rpPostTrust(s model.ShipMessageExchangeState) bool {
	return s == 7 || s == 8 || s == 13 || (s >= 18 && s <= 38)
}

// rpEdges is the SHIP 13.4 table (the same spec table the contracts use), loaded from the scenario request.
var rpEdges map[string]map[string]bool

func rpEdge(role shipRole, a, b model.ShipMessageExchangeState) bool {
	if a == b || b == model.SmeStateError {
		return true
	}
	return rpEdges[string(role)][fmt.Sprintf("%d>%d", a, b)]
}

// rpRun executes one scenario on the real code and returns the description of an oracle violation ("" = none).
func rpRun(sc rpScenario, oracle string) (viol string) {
	env := &rpEnv{paired: sc.Paired, auto: sc.Auto, allowWait: sc.Allow, failWrite: sc.FailWrite, closed: sc.Closed}
	env.reader = &rpReader{env: env}
	role := ShipRoleServer
	if sc.Role == "client" {
		role = ShipRoleClient
	}
	c := NewConnectionHandler(env, env, role, "LOCALID", "remoteski", sc.StoredID)
	c.smeState = model.ShipMessageExchangeState(sc.State)
	if sc.State >= uint(model.SmeStateComplete) {
		sc.Buffered = 0 // a completed (or failed) connection has no backlog: object invariant B1
	}
	for i := 0; i < sc.Buffered; i++ {
		c.spineBuffer = append(c.spineBuffer, []byte(fmt.Sprintf(`{"datagram":[{"b":%d}]}`, i)))
	}
	if sc.State == uint(model.SmeStateComplete) || sc.State == uint(model.SmeStateError) && sc.Buffered == 0 && sc.Entry == "message" && strings.HasPrefix(sc.Message, "data") {
		if sc.State == uint(model.SmeStateComplete) {
			c.dataReader = env.reader
		}
	}
	start := c.smeState
	defer func() {
		if r := recover(); r != nil {
			viol = fmt.Sprintf("panic: %v", r)
			if oracle != "panic" && oracle != "any" {
				viol = "" // a panic is reported under the safety oracle only
			}
		}
	}()
	done := make(chan struct{})
	go func() {
		defer close(done)
		defer func() {
			if r := recover(); r != nil {
				env.mu.Lock()
				env.events = append(env.events, fmt.Sprintf("panic: %v", r))
				env.mu.Unlock()
			}
		}()
		switch sc.Entry {
		case "message":
			c.HandleIncomingWebsocketMessage(rpPool[sc.Message])
		case "timeout":
			c.setHandshakeTimerRunning(false)
			c.handleState(true, nil)
		case "approve":
			c.ApprovePendingHandshake()
		case "abort":
			c.AbortPendingHandshake()
		case "error":
			c.ReportConnectionError(errors.New("replay: transport error"))
		case "close":
			c.CloseConnection(true, 0, "replay")
		case "close-then-confirm":
			c.CloseConnection(true, 0, "replay")
			c.HandleIncomingWebsocketMessage(rpPool["close-confirm"])
		}
	}()
	select {
	case <-done:
	case <-time.After(3 * time.Second):
		if oracle == "panic" || oracle == "any" {
			return "entry did not return within 3s"
		}
		return ""
	}
	// let goroutines scheduled by the entry (delayed close) run when the oracle needs them - only when the
	// synchronous part left something to wait for
	if oracle == "closed" || oracle == "reports" {
		env.mu.Lock()
		st := c.smeState
		pending := (rpTerminal(st) && env.closedCalls == 0 && st != start) || (env.closedCalls > 0 && env.connClosed == 0) || sc.Entry == "close" || sc.Entry == "close-then-confirm"
		env.mu.Unlock()
		if pending {
			time.Sleep(1200 * time.Millisecond)
		}
	}
	c.stopHandshakeTimerForReplay()
	env.mu.Lock()
	defer env.mu.Unlock()
	end := c.smeState
	for _, ev := range env.events {
		if strings.HasPrefix(ev, "panic") && (oracle == "panic" || oracle == "any") {
			return ev
		}
	}
	obs := fmt.Sprintf("reports=%v end=%d timer=%v closeCalls=%d connClosed=%d setups=%d idReports=%v events=%v", env.reports, end, c.handshakeTimerRunning, env.closedCalls, env.connClosed, env.setups, env.idReports, env.events)
	switch oracle {
	case "edges":
		prev := start
		for _, s := range env.reports {
			if !rpEdge(role, prev, s) {
				return fmt.Sprintf("reported transition %d -> %d is not an edge of the SHIP diagram for role %s; %s", prev, s, role, obs)
			}
			if rpTerminal(prev) && !rpTerminal(s) {
				return fmt.Sprintf("terminal state %d was left for %d; %s", prev, s, obs)
			}
			prev = s
		}
	case "timer":
		if rpTerminal(end) && c.handshakeTimerRunning {
			return "handshake timer armed in terminal state; " + obs
		}
	case "closed":
		if (end == model.SmeStateError || end == model.SmeHelloStateRejected || end == model.SmeHelloStateAbortDone || end == model.SmeHelloStateRemoteAbortDone) && env.closedCalls == 0 && end != start {
			return "terminal outcome without the transport being closed; " + obs
		}
	case "gate":
		prev := start
		for _, s := range env.reports {
			if rpPostTrust(s) && !rpPostTrust(prev) && !(sc.Paired || sc.Auto || role == ShipRoleClient || sc.Entry == "approve") {
				return fmt.Sprintf("entered trusted state %d from %d without trust; %s", s, prev, obs)
			}
			prev = s
		}
		if env.setups > 0 && !rpPostTrust(start) && !(sc.Paired || sc.Auto || role == ShipRoleClient || sc.Entry == "approve") {
			return "remote device set up without trust; " + obs
		}
	case "pin":
		completed := end == model.SmeStateComplete || end == model.SmeStateApproved
		if completed && sc.StoredID != "" && sc.Message != "access-id-stored" {
			return "handshake completed although the presented SHIP ID differs from the stored one; " + obs
		}
		if completed && sc.StoredID == "" && len(env.idReports) != 1 {
			return "new SHIP ID not reported exactly once; " + obs
		}
		if sc.StoredID != "" && len(env.idReports) != 0 {
			return "known SHIP ID reported again; " + obs
		}
		for i, ev := range env.events {
			if ev == "idreport" {
				for _, before := range env.events[:i] {
					if before == "setup" {
						return "SHIP ID reported after the device setup; " + obs
					}
				}
			}
		}
	case "reports":
		if env.connClosed > 1 {
			return "connection end reported more than once; " + obs
		}
		if env.closedCalls > 0 && env.connClosed == 0 {
			return "transport closed but the end of the connection was never reported; " + obs
		}
	case "abort":
		if sc.Entry == "abort" && (start == model.SmeHelloStatePendingListen || start == model.SmeHelloStateReadyListen) && !rpTerminal(end) {
			return "cancelled pending handshake did not reach a terminal state; " + obs
		}
	case "delivery":
		want := []string{}
		for i := 0; i < sc.Buffered; i++ {
			want = append(want, fmt.Sprintf(`{"datagram":[{"b":%d}]}`, i))
		}
		if end == model.SmeStateComplete || c.dataReader != nil {
			for i, w := range want {
				if i >= len(env.delivered) || env.delivered[i] != w {
					return fmt.Sprintf("buffered payloads not delivered first and in order: %v; %s", env.delivered, obs)
				}
			}
			if len(c.spineBuffer) != 0 {
				return "buffer not empty although a reader is installed; " + obs
			}
		} else if len(env.delivered) > 0 {
			return "payload delivered before completion; " + obs
		}
	}
	return ""
}

// stopHandshakeTimerForReplay keeps leaked timers of one scenario from firing into the next one.
func (c *ShipConnection) stopHandshakeTimerForReplay() {
	select {
	case c.handshakeTimerStopChan <- struct{}{}:
	default:
	}
}

// rpReachable: the start state is reachable from INIT_START along diagram edges for this role.
func rpReachable(role string, st uint) bool {
	seen := map[uint]bool{0: true}
	work := []uint{0}
	for len(work) > 0 {
		a := work[0]
		work = work[1:]
		for b := uint(0); b <= 39; b++ {
			if !seen[b] && (b == 39 || rpEdges[role][fmt.Sprintf("%d>%d", a, b)]) {
				seen[b] = true
				work = append(work, b)
			}
		}
	}
	return seen[st]
}

func TestReplayShipSearch(t *testing.T) {
	var req struct {
		Oracle string                     `json:"oracle"`
		States []uint                     `json:"states"`
		Edges  map[string]map[string]bool `json:"edges"`
		Max    int                        `json:"max_runs"`
	}
	data, err := os.ReadFile(os.Getenv("REPLAY_REQUEST"))
	if err != nil {
		t.Skip("no replay request")
	}
	if err := json.Unmarshal(data, &req); err != nil {
		t.Fatal(err)
	}
	rpEdges = req.Edges
	entries := []string{"message", "timeout", "approve", "abort", "error"}
	if req.Oracle == "reports" || req.Oracle == "closed" {
		entries = append(entries, "close", "close-then-confirm")
	}
	var names []string
	for n := range rpPool {
		names = append(names, n)
	}
	runs := 0
	for _, role := range []string{"server", "client"} {
		for _, st := range req.States {
			if !rpReachable(role, st) {
				continue // a state this role can never be in
			}
			for _, entry := range entries {
				msgs := []string{""}
				if entry == "message" {
					msgs = names
				}
				for _, m := range msgs {
					if (m == "close-announce") && req.Oracle != "reports" && req.Oracle != "closed" {
						continue // sleeps 500 ms
					}
					for fw := 0; fw <= 2; fw++ {
						for _, closed := range []bool{false, true} {
							for trust := 0; trust < 4; trust++ {
								for _, stored := range []string{"", "STORED"} {
									if stored != "" && req.Oracle != "pin" {
										continue
									}
									sc := rpScenario{Role: role, State: st, Entry: entry, Message: m, FailWrite: fw, Closed: closed, Paired: trust&1 != 0, Auto: false, Allow: trust&2 != 0, StoredID: stored}
									if req.Oracle == "delivery" {
										sc.Buffered = 2
									}
									runs++
									if req.Max > 0 && runs > req.Max {
										t.Logf("search space exhausted the run budget (%d runs) without a failing run", runs-1)
										return
									}
									if v := rpRun(sc, req.Oracle); v != "" {
										sc.Observed = v
										b, _ := json.Marshal(sc)
										if out := os.Getenv("REPLAY_OUT"); out != "" {
											os.WriteFile(out, b, 0o644)
										}
										t.Fatalf("REPRODUCED after %s runs: %s", strconv.Itoa(runs), b)
									}
								}
							}
						}
					}
				}
			}
		}
	}
	t.Logf("no failing run among %d scenarios", runs)
}
