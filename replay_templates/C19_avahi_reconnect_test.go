package mdns

// Replay for property C19 (mDNS via Avahi survives daemon restarts without stale or lost announcements).
// A hand-written fake of the Avahi server (go-avahi's ServerInterface) stands in for the daemon; the provider's real
// methods are driven through three fault sequences:
//   stale:     announce A, daemon goes away, the application announces B during the outage, daemon comes back
//              -> the announcement that becomes active must carry B
//   withdrawn: announce A, daemon goes away, the application un-announces during the outage, daemon comes back
//              -> nothing may be announced
//   shutdown:  announce A, daemon goes away, the application shuts the provider down while the reconnect loop is
//              waiting, daemon comes back -> nothing may be restarted or re-announced

import (
	"errors"
	"net"
	"strings"
	"sync"
	"testing"
	"time"

	"github.com/enbility/go-avahi"
)

type c19Group struct {
	avahi.EntryGroupInterface
	srv       *c19Server
	txt       []string
	committed bool
	freed     bool
}

func (g *c19Group) AddService(iface, protocol int32, flags uint32, name, serviceType, domain, host string, port uint16, txt [][]byte) error {
	g.srv.mu.Lock()
	defer g.srv.mu.Unlock()
	g.txt = nil
	for _, t := range txt {
		g.txt = append(g.txt, string(t))
	}
	return nil
}
func (g *c19Group) Commit() error {
	g.srv.mu.Lock()
	defer g.srv.mu.Unlock()
	g.committed = true
	return nil
}

type c19Browser struct{ avahi.ServiceBrowserInterface }

type c19Server struct {
	avahi.ServerInterface
	mu       sync.Mutex
	up       bool
	groups   []*c19Group
	browsers int
	setups   int
}

var errC19Down = errors.New("daemon not available")

func (s *c19Server) Setup(cb avahi.EventCB) error {
	s.mu.Lock()
	defer s.mu.Unlock()
	if !s.up {
		return errC19Down
	}
	s.setups++
	return nil
}
func (s *c19Server) Start()    {}
func (s *c19Server) Shutdown() {}
func (s *c19Server) GetAPIVersion() (int32, error) {
	s.mu.Lock()
	defer s.mu.Unlock()
	if !s.up {
		return 0, errC19Down
	}
	return 1, nil
}
func (s *c19Server) EntryGroupNew() (avahi.EntryGroupInterface, error) {
	s.mu.Lock()
	defer s.mu.Unlock()
	if !s.up {
		return nil, errC19Down
	}
	g := &c19Group{srv: s}
	s.groups = append(s.groups, g)
	return g, nil
}
func (s *c19Server) EntryGroupFree(r avahi.EntryGroupInterface) {
	s.mu.Lock()
	defer s.mu.Unlock()
	if g, ok := r.(*c19Group); ok {
		g.freed = true
	}
}
func (s *c19Server) ServiceBrowserNew(addChan, removeChan chan avahi.Service, iface, protocol int32, serviceType string, domain string, flags uint32) (avahi.ServiceBrowserInterface, error) {
	s.mu.Lock()
	defer s.mu.Unlock()
	if !s.up {
		return nil, errC19Down
	}
	s.browsers++
	return &c19Browser{}, nil
}
func (s *c19Server) ServiceBrowserFree(r avahi.ServiceBrowserInterface) {}

// the daemon goes away: everything it knew is gone
func (s *c19Server) down() {
	s.mu.Lock()
	defer s.mu.Unlock()
	s.up = false
	s.groups = nil
}
func (s *c19Server) back() {
	s.mu.Lock()
	defer s.mu.Unlock()
	s.up = true
}

// what the daemon announces right now: the TXT data of the committed, not freed entry groups
func (s *c19Server) announced() [][]string {
	s.mu.Lock()
	defer s.mu.Unlock()
	var out [][]string
	for _, g := range s.groups {
		if g.committed && !g.freed {
			out = append(out, append([]string{}, g.txt...))
		}
	}
	return out
}

func c19Provider() (*AvahiProvider, *c19Server) {
	srv := &c19Server{up: true}
	p := NewAvahiProvider([]int32{1})
	p.avServer = srv
	return p, srv
}

func c19CB(map[string]string, string, string, []net.IP, int, bool) {}

func TestReplayC19(t *testing.T) {
	t.Run("stale", func(t *testing.T) {
		p, srv := c19Provider()
		if !p.Start(true, c19CB) {
			t.Fatal("start failed")
		}
		if err := p.Announce("svc", 4711, []string{"register=false"}); err != nil {
			t.Fatal(err)
		}
		srv.down()
		p.avahiCallback(avahi.Disconnected)
		time.Sleep(200 * time.Millisecond)
		_ = p.Announce("svc", 4711, []string{"register=true"}) // fails: the daemon is away; but it is the most recent request
		srv.back()
		time.Sleep(2500 * time.Millisecond)
		got := srv.announced()
		if len(got) != 1 || strings.Join(got[0], ",") != "register=true" {
			t.Errorf("REPRODUCED: after the daemon came back the announcement is %v, the most recently requested TXT data is [register=true]", got)
		}
		p.Shutdown()
	})
	t.Run("withdrawn", func(t *testing.T) {
		p, srv := c19Provider()
		if !p.Start(true, c19CB) {
			t.Fatal("start failed")
		}
		if err := p.Announce("svc", 4711, []string{"register=false"}); err != nil {
			t.Fatal(err)
		}
		srv.down()
		p.avahiCallback(avahi.Disconnected)
		time.Sleep(200 * time.Millisecond)
		p.Unannounce()
		srv.back()
		time.Sleep(2500 * time.Millisecond)
		if got := srv.announced(); len(got) != 0 {
			t.Errorf("REPRODUCED: the announcement was withdrawn during the outage, but after the daemon came back %v is announced", got)
		}
		p.Shutdown()
	})
	t.Run("manager", func(t *testing.T) {
		// the manager's very first announcement falls into an outage; after the daemon is back the request is
		// announced (the provider keeps it); when the application withdraws it, it must disappear
		p, srv := c19Provider()
		m := NewMDNS("aabb", "brand", "model", "type", "serial", nil, "shipid", "svc", 4711, nil, MdnsProviderSelectionAvahiOnly)
		m.mdnsProvider = p
		if !p.Start(true, c19CB) {
			t.Fatal("start failed")
		}
		srv.down()
		p.avahiCallback(avahi.Disconnected)
		time.Sleep(200 * time.Millisecond)
		_ = m.AnnounceMdnsEntry() // fails: the daemon is away
		srv.back()
		time.Sleep(2500 * time.Millisecond)
		if got := srv.announced(); len(got) != 1 {
			t.Errorf("after the daemon came back the requested announcement is not active: %v", got)
		}
		m.UnannounceMdnsEntry()
		if got := srv.announced(); len(got) != 0 {
			t.Errorf("REPRODUCED: the application withdrew the announcement, but %v is still announced (the manager had forgotten that a request was pending at the provider)", got)
		}
		p.Shutdown()
	})
	t.Run("shutdown", func(t *testing.T) {
		p, srv := c19Provider()
		if !p.Start(true, c19CB) {
			t.Fatal("start failed")
		}
		if err := p.Announce("svc", 4711, []string{"register=false"}); err != nil {
			t.Fatal(err)
		}
		srv.down()
		p.avahiCallback(avahi.Disconnected)
		time.Sleep(200 * time.Millisecond)
		p.Shutdown()
		srv.mu.Lock()
		browsers, setups := srv.browsers, srv.setups
		srv.mu.Unlock()
		srv.back()
		time.Sleep(2500 * time.Millisecond)
		srv.mu.Lock()
		b2, s2 := srv.browsers, srv.setups
		srv.mu.Unlock()
		if b2 != browsers || s2 != setups {
			t.Errorf("REPRODUCED: the provider was shut down manually, yet the reconnect loop restarted it (%d new setups, %d new browsers)", s2-setups, b2-browsers)
		}
		if got := srv.announced(); len(got) != 0 {
			t.Errorf("REPRODUCED: the provider was shut down manually, yet %v is announced after the daemon came back", got)
		}
	})
}
