package ship

// Replay for property C14 (a stopped or replaced handshake timer never fires).
// Scenario, real methods only: on many connections a timer is armed and stopped straight away - before the timer
// goroutine has reached its select - or replaced by a second, much longer one.  A connection whose timer was
// stopped (or replaced) well before its expiry must never see the timeout: its state must not move.
// On the tree before the fix the non-blocking stop send on the shared unbuffered channel is lost whenever the
// goroutine is not waiting yet, and the "stopped" timer delivers handleState(true, nil) after its duration.

import (
	"errors"
	"sync/atomic"
	"testing"
	"time"

	"github.com/enbility/ship-go/api"
	"github.com/enbility/ship-go/model"
)

type c14Env struct{ updates atomic.Int32 }

func (e *c14Env) IsRemoteServiceForSKIPaired(string) bool                  { return false }
func (e *c14Env) IsAutoAcceptEnabled() bool                                { return false }
func (e *c14Env) AllowWaitingForTrust(string) bool                         { return false }
func (e *c14Env) HandleConnectionClosed(api.ShipConnectionInterface, bool) {}
func (e *c14Env) ReportServiceShipID(string, string)                       {}
func (e *c14Env) HandleShipHandshakeStateUpdate(string, model.ShipState)   { e.updates.Add(1) }
func (e *c14Env) SetupRemoteDevice(string, api.ShipConnectionDataWriterInterface) api.ShipConnectionDataReaderInterface {
	return nil
}
func (e *c14Env) InitDataProcessing(api.WebsocketDataReaderInterface) {}
func (e *c14Env) WriteMessageToWebsocketConnection(m []byte) error    { return nil }
func (e *c14Env) CloseDataConnection(int, string)                     {}
func (e *c14Env) IsDataConnectionClosed() (bool, error)               { return false, errors.New("open") }

func TestReplayC14(t *testing.T) {
	t.Run("stopped-or-replaced", replayC14LostStop)
	t.Run("fires-once", replayC14ArmedTimerFiresOnce)
}

func replayC14LostStop(t *testing.T) {
	const n = 400
	conns := make([]*ShipConnection, 0, n)
	for i := 0; i < n; i++ {
		env := &c14Env{}
		c := NewConnectionHandler(env, env, ShipRoleClient, "LOCALID", "remoteski", "")
		c.setState(model.CmiStateClientWait, nil) // a timeout in this state ends the handshake with an error
		c.setHandshakeTimer(timeoutTimerTypeWaitForReady, 150*time.Millisecond)
		if i%2 == 0 {
			c.stopHandshakeTimer() // stopped immediately after arming
		} else {
			c.setHandshakeTimer(timeoutTimerTypeWaitForReady, time.Hour) // replaced immediately after arming
		}
		conns = append(conns, c)
	}
	time.Sleep(600 * time.Millisecond)
	fired := 0
	for _, c := range conns {
		if c.getState() != model.CmiStateClientWait {
			fired++
		}
		c.stopHandshakeTimer()
	}
	if fired > 0 {
		t.Fatalf("REPRODUCED: %d of %d connections were torn down by a handshake timer that had been stopped or replaced 150 ms before its expiry", fired, n)
	}
}

// each armed timer delivers at most one timeout, and only the armed one delivers
func replayC14ArmedTimerFiresOnce(t *testing.T) {
	env := &c14Env{}
	c := NewConnectionHandler(env, env, ShipRoleClient, "LOCALID", "remoteski", "")
	c.setState(model.CmiStateClientWait, nil)
	c.setHandshakeTimer(timeoutTimerTypeWaitForReady, 100*time.Millisecond)
	time.Sleep(400 * time.Millisecond)
	if c.getState() != model.SmeStateError {
		t.Fatalf("REPRODUCED: the armed timer did not deliver its timeout: state %v", c.getState())
	}
	after := env.updates.Load()
	time.Sleep(300 * time.Millisecond)
	if got := env.updates.Load(); got != after {
		t.Fatalf("REPRODUCED: the timer delivered more than once: %d further state reports", got-after)
	}
}
